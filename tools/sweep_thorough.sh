#!/bin/bash
# thorough tier of every check, one after the other (seed from $1, default 1)
cd "$(dirname "$0")/.."
S=${1:-1}
for i in 06 05 07 03 14 17 18 11 12 09 13 01 02 04 08 10 15 16 19 20; do echo "== C$i thorough seed $S"; VERIF_SEED=$S timeout 7200 ./check C$i --tier thorough 2>&1 | grep -v "^KNOWN" | tail -3 | cut -c1-500; done
