#!/bin/bash
# seed regression at several VERIF_SEED values: tools/reseed_multi.sh 2 3
cd "$(dirname "$0")/.."
for s in "$@"; do echo "#### VERIF_SEED=$s"; VERIF_SEED=$s python3 tools/reseed.py | grep -v " detected$"; done
