#!/usr/bin/env python3
"""seedbatch.py <round_dir> <tag> <ID> <check,check,...>: confirm and run all changes X of /<round_dir>/<ID>/X.patch.diff,
keep each as seeded/<ID>-<tag><X>/ (meta.json records suite/demo/check results)."""
import glob, json, os, subprocess, sys
root = os.path.dirname(os.path.dirname(os.path.abspath(__file__)))
rd, tag, pid, checks = sys.argv[1:5]
for patch in sorted(glob.glob(os.path.join(rd, pid, "*.patch.diff"))):
    x = os.path.basename(patch).split(".")[0]
    demo = os.path.join(rd, pid, x + ".demo.py")
    r = subprocess.run([sys.executable, os.path.join(root, "tools", "seedtest.py"), patch, demo if os.path.exists(demo) else "-", checks],
                       capture_output=True, text=True, timeout=14000)
    line = r.stdout.strip().splitlines()[-1] if r.stdout.strip() else "{}"
    print(pid, x, line, flush=True)
    try:
        res = json.loads(line)
    except Exception:
        continue
    ok = res.get("apply_rc") == 0 and "100 passed" in (res.get("suite") or "") and res.get("demo_unchanged_rc") == 0 and res.get("demo_changed_rc") not in (0, None)
    if not ok:
        print("   NOT CONFIRMED", flush=True)
        continue
    subprocess.run([sys.executable, os.path.join(root, "tools", "keepseed.py"), os.path.join(rd, pid), x, pid, line, tag], capture_output=True)
