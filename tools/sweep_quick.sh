#!/bin/bash
# multi-seed quick sweep: tools/sweep_quick.sh [seed ...]   (default 21..26)
cd "$(dirname "$0")/.."
SEEDS="${@:-21 22 23 24 25 26}"
for s in $SEEDS; do for i in 01 02 03 04 05 06 07 08 09 10 11 12 13 14 15 16 17 18 19 20; do echo "== C$i seed $s"; VERIF_SEED=$s timeout 1800 ./check C$i --tier quick 2>&1 | grep -v "^KNOWN" | tail -3 | cut -c1-400; done; done
