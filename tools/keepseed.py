#!/usr/bin/env python3
"""keepseed.py <srcdir> <x> <property> '<json from seedtest>'  -> /verif/seeded/<property>-<x>/"""
import json, os, shutil, sys
src, x, prop, res = sys.argv[1], sys.argv[2], sys.argv[3], json.loads(sys.argv[4])
tag = sys.argv[5] if len(sys.argv) > 5 else ""
dst = os.path.join(os.path.dirname(os.path.dirname(os.path.abspath(__file__))), "seeded", "%s-%s%s" % (prop, tag, x))
os.makedirs(dst, exist_ok=True)
shutil.copy(os.path.join(src, x + ".patch.diff"), os.path.join(dst, "patch.diff"))
shutil.copy(os.path.join(src, x + ".demo.py"), os.path.join(dst, "demo.py"))
notes = open(os.path.join(src, x + ".notes.md")).read() if os.path.exists(os.path.join(src, x + ".notes.md")) else ""
meta = {"breaks_property": prop, "origin": "independent sub-agent given only the property text and a scratch worktree",
        "needs_to_manifest": notes.strip()[:1500],
        "confirmed": {"existing_suite_with_change": res.get("suite"), "demo_exit_unchanged": res.get("demo_unchanged_rc"),
                      "demo_exit_changed": res.get("demo_changed_rc"),
                      "how": "tools/seedtest.py: scratch copy of /repo outside /repo and /verif, git apply, pytest -n 8, demo, ./check with EAO_REPO"},
        "checks_run": res.get("checks", {}),
        "detected_by": [c for c, v in res.get("checks", {}).items() if v.get("rc") == 1]}
json.dump(meta, open(os.path.join(dst, "meta.json"), "w"), indent=1)
print(dst, meta["detected_by"])
