#!/bin/bash
# thorough tier of selected checks: tools/sweep_thorough_sel.sh <seed> C10 C17 ...
cd "$(dirname "$0")/.."
S=$1; shift
for c in "$@"; do echo "== $c thorough seed $S"; VERIF_SEED=$S timeout 7200 ./check $c --tier thorough --no-evidence 2>&1 | grep -v "^KNOWN" | tail -3 | cut -c1-500; done
