#!/usr/bin/env python3
"""Sensitivity: apply hand-written mutations to a scratch copy of /repo/eaopack (outside /repo and
/verif), run the named checks against it (EAO_REPO) and report which checks fail.

usage: tools/muttest.py [name-substring ...]      (no args = all)
Never touches /repo.  Scratch copies are removed afterwards.
"""
import json
import os
import shutil
import subprocess
import sys
import tempfile

ROOT = os.path.dirname(os.path.dirname(os.path.abspath(__file__)))

# name, file, old, new, checks expected to catch it
MUTS = [
    ("c03_L_rows_as_U", "eaopack/optimization.py", "constraints = constraints + [ AL @ x>=bL ]",
     "constraints = constraints + [ AL @ x<=bL ]", ["C03"]),
    ("c03_drop_N_block", "eaopack/optimization.py", "constraints = constraints + [ AN @ x==bN ]",
     "constraints = constraints", ["C03", "C01"]),
    ("c03_bools_from_dup_index", "eaopack/optimization.py",
     "my_bools = map.loc[(~map.index.duplicated(keep='first')) & (map['bool'])].index.values.tolist()",
     "my_bools = map.reset_index(drop=True).loc[(map['bool'].fillna(False).values.astype(bool))].index.values.tolist()", ["C03"]),
    ("c01_io_drop_disp_factor", "eaopack/io.py", "disp.loc[times[r.time_step], myCol] += res.x[i]*r.disp_factor",
     "disp.loc[times[r.time_step], myCol] += res.x[i]", ["C01"]),
    ("c01_split_timestep_off_by_one", "eaopack/portfolio.py", "orig_I = [tmp_I[a] for a in mapping_tmp[\"time_step\"]]",
     "orig_I = [tmp_I[max(a-1,0)] for a in mapping_tmp[\"time_step\"]]", ["C01", "C14"]),
    ("c04_dcf_keep_last", "eaopack/assets.py",
     "        my_mapping = pd.DataFrame(my_mapping[~my_mapping.index.duplicated(keep = 'first')])\n\n        for i, r in my_mapping.iterrows():\n            dcf[r['time_step']] += -optim_problem.c[i] * results.x[i]",
     "        my_mapping = pd.DataFrame(my_mapping[~my_mapping.index.duplicated(keep = 'last')])\n\n        for i, r in my_mapping.iterrows():\n            dcf[r['time_step']] += -optim_problem.c[i] * results.x[i]",
     ["C04"]),
    ("c04_split_len_res_shift_dropped", "eaopack/portfolio.py", "mapping_tmp.index += len_res", "mapping_tmp.index += 0", ["C04", "C01", "C14"]),
    ("c07_bool_timestep_range", "eaopack/assets.py",
     "            map_bool['time_step'] = self.timegrid.restricted.I\n            map_bool['node']      = np.nan\n            map_bool['asset']     = self.name\n            map_bool['type']      = 'i' # internal\n            map_bool['bool']      = True\n            map_bool['var_name']  = 'bool_1'",
     "            map_bool['time_step'] = self.timegrid.restricted.I + 1\n            map_bool['node']      = np.nan\n            map_bool['asset']     = self.name\n            map_bool['type']      = 'i' # internal\n            map_bool['bool']      = True\n            map_bool['var_name']  = 'bool_1'",
     ["C07"]),
    ("c19_interval_end_inclusive", "eaopack/basic_classes.py",
     "I = (self.timepoints >= pd.to_datetime(s)) & (self.timepoints < pd.to_datetime(e))",
     "I = (self.timepoints >= pd.to_datetime(s)) & (self.timepoints <= pd.to_datetime(e))", ["C19"]),
    ("c19_restricted_end_inclusive", "eaopack/basic_classes.py",
     "I = (ref_timegrid.timepoints>=self.start) & (ref_timegrid.timepoints<self.end)",
     "I = (ref_timegrid.timepoints>=self.start) & (ref_timegrid.timepoints<=self.end)", ["C19", "C08"]),
    ("c19_Dt_shifted", "eaopack/basic_classes.py", "self.Dt         = np.cumsum(self.dt) # total duration since start (in main time unit)",
     "self.Dt         = np.cumsum(self.dt) - self.dt # total duration since start (in main time unit)", ["C19", "C02"]),
    ("c18_sign_flip", "eaopack/io.py", "duals.loc[times[id[0]], name_nodal_price] = -res.duals['N'][ii]",
     "duals.loc[times[id[0]], name_nodal_price] = res.duals['N'][ii]", ["C18"]),
    ("c18_wrong_step", "eaopack/io.py", "duals.loc[times[id[0]], name_nodal_price] = -res.duals['N'][ii]",
     "duals.loc[times[max(id[0]-1,0)], name_nodal_price] = -res.duals['N'][ii]", ["C18"]),
    ("c18_duals_from_S", "eaopack/io.py", "duals.loc[times[id[0]], name_nodal_price] = -res.duals['N'][ii]",
     "duals.loc[times[id[0]], name_nodal_price] = -(res.duals['S'] if res.duals.get('S') is not None and len(res.duals['S'])>ii else res.duals['N'])[ii]", ["C18"]),
    ("c02_cost_in_sign", "eaopack/assets.py", "c[0,:] = -c[0,:]*self.cost_in", "c[0,:] = c[0,:]*self.cost_in", ["C02"]),
    ("c02_cap_out_without_dt", "eaopack/assets.py", "ct = self.cap_out * dt #  Adjust capacity (unit is in vol/h)",
     "ct = self.cap_out * np.ones(len(dt)) #  Adjust capacity (unit is in vol/h)", ["C02", "C05", "C12"]),
    ("c02_discount_360", "eaopack/basic_classes.py", "d = (1.+wacc)**(1./365.)", "d = (1.+wacc)**(1./360.)", ["C02", "C19"]),
    ("c02_eff_on_discharge", "eaopack/assets.py", "A = sp.hstack((A*self.eff_in, A )) # for in and out",
     "A = sp.hstack((A, A*self.eff_in )) # for in and out", ["C02", "C05"]),
    ("c02_prorate_full_duration", "eaopack/assets.py",
     "my_v = v / ((e-s)/pd.Timedelta(1, timegrid.main_time_unit)) * timegrid.dt[map.loc[I, 'time_step'].unique()].sum()",
     "my_v = v", ["C02", "C08"]),
    ("c05_end_level_without_inflow", "eaopack/assets.py",
     "            b[-1] = self.end_level - self.start_level   - inflow[-1]\n",
     "            b[-1] = self.end_level - self.start_level\n", ["C05", "C02"]),
    ("c05_fill_level_without_start", "eaopack/assets.py", "        fill_level = fill_level.cumsum() + self.start_level            \n        return fill_level",
     "        fill_level = fill_level.cumsum()\n        return fill_level", ["C05"]),
    ("c06_min_runtime_short", "eaopack/assets.py", "                for i in range(1, min_runtime):\n                    if i > t:\n                        continue\n                    a = sp.lil_matrix((1, op.A.shape[1]))\n                    a[0, self.on_idx + t] = 1\n                    a[0, self.start_idx + t - i] = -1",
     "                for i in range(1, min_runtime - 1):\n                    if i > t:\n                        continue\n                    a = sp.lil_matrix((1, op.A.shape[1]))\n                    a[0, self.on_idx + t] = 1\n                    a[0, self.start_idx + t - i] = -1", ["C06"]),
    ("c06_fuel_factor", "eaopack/assets.py", "initial_map['disp_factor'] = -1. / fuel_efficiency", "initial_map['disp_factor'] = -1. * fuel_efficiency", ["C06"]),
    ("c06_first_step_ramp_row_dropped", "eaopack/assets.py", "            if not include_on_variables:\n                op.b = np.hstack([op.b, last_dispatch + ramp])\n",
     "            if not include_on_variables:\n                op.b = np.hstack([op.b, last_dispatch + 100*ramp])\n", ["C06"]),
    ("c08_orders_start_exclusive", "eaopack/assets.py", "myI = (tp>=mys) & (tp<mye)", "myI = (tp>mys) & (tp<mye)", ["C20", "C08"]),
    ("c20_order_end_inclusive", "eaopack/assets.py", "myI = (tp>=mys) & (tp<mye)", "myI = (tp>=mys) & (tp<=mye)", ["C20", "C08"]),
    ("c20_cost_without_dt", "eaopack/assets.py", "c[iO] = myc * sum(dt[myI] * discount_factors[myI]) *myp", "c[iO] = myc * sum(discount_factors[myI]) *myp", ["C20"]),
    ("c09_sort_assets_by_name", "eaopack/portfolio.py", "        self.assets = assets\n", "        self.assets = sorted(assets, key = lambda a: a.name)\n        self.asset_names = [a.name for a in self.assets]\n", ["C09"]),
    ("c14_Dt_from_zero", "eaopack/portfolio.py", "            timegrid_tmp.I = np.array(range(0, timegrid_tmp.T))  \n",
     "            timegrid_tmp.I = np.array(range(0, timegrid_tmp.T))  \n            timegrid_tmp.Dt = np.cumsum(timegrid_tmp.dt)\n", ["C14"]),
    ("c15_date_exclusive_and_rowpos", "eaopack/portfolio.py", "            I = mapping.index[I].unique() # the variables (the mapping may contain several rows per variable)\n",
     "            I = np.where(I.values)[0][np.where(I.values)[0] < n_vars] # positions\n", ["C15"]),
    ("c12_discount_without_unit", "eaopack/basic_classes.py",
     "self.discount_factors =  1./d**(self.Dt*pd.Timedelta(1, self.main_time_unit)/pd.Timedelta(1, 'd')) ",
     "self.discount_factors =  1./d**(self.Dt/24.) ", ["C12", "C02"]),
    ("c12_cost_store_without_dt", "eaopack/assets.py", "cost_store = self.cost_store * dt * discount", "cost_store = self.cost_store * discount", ["C12", "C02"]),
    ("c12_ramp_not_scaled", "eaopack/assets.py", "ramp = self.ramp * self.timegrid.restricted.dt[0] if self.ramp is not None else None",
     "ramp = self.ramp if self.ramp is not None else None", ["C12", "C06"]),
    ("c12_runtime_not_converted", "eaopack/assets.py", "min_downtime = self.convert_to_timegrid_freq(self.min_downtime, \"min_downtime\")",
     "min_downtime = int(np.ceil(self.min_downtime))", ["C12", "C06"]),
    ("c17_cost_scaling", "eaopack/stoch_lin_prog.py", "optim_problem.c = np.hstack((optim_problem.c, myc[If]/(nS+1)))",
     "optim_problem.c = np.hstack((optim_problem.c, myc[If]/(nS)))", ["C17"]),
    ("c17_present_not_decoupled", "eaopack/stoch_lin_prog.py", "    Ap[:,If]         = 0.\n", "    pass\n", ["C17"]),
    ("c17_robust_constraint_flipped", "eaopack/optimization.py", "constraints = constraints + [-myc.T @ x >= DCF_min ]",
     "constraints = constraints + [-myc.T @ x <= DCF_min ]", ["C17"]),
    ("c16_scale_b_not_normalised", "eaopack/assets.py", "op.A  = sp.hstack((op.A, np.reshape(-op.b.copy(), (len(op.b), 1))/self.norm_scale))",
     "op.A  = sp.hstack((op.A, np.reshape(-op.b.copy(), (len(op.b), 1))))", ["C16"]),
    ("c16_fix_costs_full_grid", "eaopack/assets.py", "op.c = np.hstack((op.c, self.fix_costs*self.timegrid.restricted.dt.sum()))",
     "op.c = np.hstack((op.c, self.fix_costs*self.timegrid.dt.sum()))", ["C16"]),
    ("c16_struct_external_nodal_rows_kept", "eaopack/portfolio.py", "op = self.portfolio.setup_optim_problem(prices, timegrid, skip_nodes = self.node_names)",
     "op = self.portfolio.setup_optim_problem(prices, timegrid, skip_nodes = [])", ["C16", "C01"]),
    ("c13_weight_dropped", "eaopack/assets.py", "                    rr['disp_factor'] = weight*rr['disp_factor']\n", "                    rr['disp_factor'] = rr['disp_factor']\n", ["C13", "C01"]),
    ("c13_periodic_cost_mean", "eaopack/optimization.py", "self.c[leading] = self.c[vars].sum()", "self.c[leading] = self.c[vars].mean()", ["C13"]),
    ("c11_drop_tz", "eaopack/serialization.py", "                '__tz__'   : mytz,", "                '__tz__'   : None,", ["C11"]),
    ("c11_pop_min_take", "eaopack/serialization.py", "        res.pop('asset_names',None)", "        res.pop('asset_names',None)\n        res.pop('min_take',None)", ["C11"]),
    ("c10_restricted_cached", "eaopack/assets.py", "        self.timegrid.set_restricted_grid(self.start, self.end, self.freq) # restricted timegrid for asset lifetime and own freq",
     "        if not hasattr(self.timegrid, 'restricted'): self.timegrid.set_restricted_grid(self.start, self.end, self.freq) # restricted timegrid for asset lifetime and own freq", ["C10", "C08"]),
    ("c10_keep_discount_factors", "eaopack/basic_classes.py", "        d = (1.+wacc)**(1./365.) # convert interest rate to daily\n",
     "        if hasattr(self, 'discount_factors'): return\n        d = (1.+wacc)**(1./365.) # convert interest rate to daily\n", ["C10", "C02", "C09"]),
]




def run(names):
    results = {}
    for name, f, old, new, checks in MUTS:
        if names and not any(n in name for n in names):
            continue
        tmp = tempfile.mkdtemp(prefix="eao_mut_", dir="/tmp")
        try:
            shutil.copytree("/repo/eaopack", os.path.join(tmp, "eaopack"))
            p = os.path.join(tmp, f)
            s = open(p).read()
            if old not in s:
                print("%-36s  PATTERN NOT FOUND" % name)
                results[name] = "pattern not found"
                continue
            open(p, "w").write(s.replace(old, new, 1))
            caught = []
            for c in checks:
                if not os.path.exists(os.path.join(ROOT, "eaoverif", "props", c.lower() + ".py")):
                    continue
                env = dict(os.environ, EAO_REPO=tmp)
                r = subprocess.run([os.path.join(ROOT, "check"), c, "--tier", "quick", "--no-evidence"],
                                   env=env, capture_output=True, text=True, timeout=3000)
                viol = [l for l in r.stdout.splitlines() if l.startswith("  violated")][:1]
                caught.append((c, r.returncode, viol[0][:140] if viol else ""))
            results[name] = caught
            print("%-36s  %s" % (name, "  ".join("%s:%s" % (c, {0: "MISSED", 1: "caught", 2: "harness"}.get(rc, rc)) for c, rc, _ in caught)))
            for c, rc, v in caught:
                if v:
                    print("      %s %s" % (c, v))
        finally:
            shutil.rmtree(tmp, ignore_errors=True)
    return results


if __name__ == "__main__":
    run(sys.argv[1:])
