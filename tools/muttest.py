#!/usr/bin/env python3
"""Sensitivity: apply hand-written mutations to a scratch copy of /repo/eaopack (outside /repo and
/verif), run the named checks against it (EAO_REPO) and report which checks fail.

usage: tools/muttest.py [name-substring ...]      (no args = all)
Never touches /repo.  Scratch copies are removed afterwards.
"""
import json
import os
import shutil
import subprocess
import sys
import tempfile

ROOT = os.path.dirname(os.path.dirname(os.path.abspath(__file__)))

# name, file, old, new, checks expected to catch it
MUTS = [
    ("c03_L_rows_as_U", "eaopack/optimization.py", "constraints = constraints + [ AL @ x>=bL ]",
     "constraints = constraints + [ AL @ x<=bL ]", ["C03"]),
    ("c03_drop_N_block", "eaopack/optimization.py", "constraints = constraints + [ AN @ x==bN ]",
     "constraints = constraints", ["C03", "C01"]),
    ("c03_bools_from_dup_index", "eaopack/optimization.py",
     "my_bools = map.loc[(~map.index.duplicated(keep='first')) & (map['bool'])].index.values.tolist()",
     "my_bools = map.reset_index(drop=True).loc[(map['bool'].fillna(False).values.astype(bool))].index.values.tolist()", ["C03"]),
    ("c01_io_drop_disp_factor", "eaopack/io.py", "disp.loc[times[r.time_step], myCol] += res.x[i]*r.disp_factor",
     "disp.loc[times[r.time_step], myCol] += res.x[i]", ["C01"]),
    ("c01_split_timestep_off_by_one", "eaopack/portfolio.py", "orig_I = [tmp_I[a] for a in mapping_tmp[\"time_step\"]]",
     "orig_I = [tmp_I[max(a-1,0)] for a in mapping_tmp[\"time_step\"]]", ["C01", "C14"]),
    ("c04_dcf_keep_last", "eaopack/assets.py",
     "        my_mapping = pd.DataFrame(my_mapping[~my_mapping.index.duplicated(keep = 'first')])\n\n        for i, r in my_mapping.iterrows():\n            dcf[r['time_step']] += -optim_problem.c[i] * results.x[i]",
     "        my_mapping = pd.DataFrame(my_mapping[~my_mapping.index.duplicated(keep = 'last')])\n\n        for i, r in my_mapping.iterrows():\n            dcf[r['time_step']] += -optim_problem.c[i] * results.x[i]",
     ["C04"]),
    ("c04_split_len_res_shift_dropped", "eaopack/portfolio.py", "mapping_tmp.index += len_res", "mapping_tmp.index += 0", ["C04", "C01", "C14"]),
    ("c07_bool_timestep_range", "eaopack/assets.py",
     "            map_bool['time_step'] = self.timegrid.restricted.I\n            map_bool['node']      = np.nan\n            map_bool['asset']     = self.name\n            map_bool['type']      = 'i' # internal\n            map_bool['bool']      = True\n            map_bool['var_name']  = 'bool_1'",
     "            map_bool['time_step'] = self.timegrid.restricted.I + 1\n            map_bool['node']      = np.nan\n            map_bool['asset']     = self.name\n            map_bool['type']      = 'i' # internal\n            map_bool['bool']      = True\n            map_bool['var_name']  = 'bool_1'",
     ["C07"]),
    ("c19_interval_end_inclusive", "eaopack/basic_classes.py",
     "I = (self.timepoints >= pd.to_datetime(s)) & (self.timepoints < pd.to_datetime(e))",
     "I = (self.timepoints >= pd.to_datetime(s)) & (self.timepoints <= pd.to_datetime(e))", ["C19"]),
    ("c19_restricted_end_inclusive", "eaopack/basic_classes.py",
     "I = (ref_timegrid.timepoints>=self.start) & (ref_timegrid.timepoints<self.end)",
     "I = (ref_timegrid.timepoints>=self.start) & (ref_timegrid.timepoints<=self.end)", ["C19", "C08"]),
    ("c19_Dt_shifted", "eaopack/basic_classes.py", "self.Dt         = np.cumsum(self.dt) # total duration since start (in main time unit)",
     "self.Dt         = np.cumsum(self.dt) - self.dt # total duration since start (in main time unit)", ["C19", "C02"]),
]


def run(names):
    results = {}
    for name, f, old, new, checks in MUTS:
        if names and not any(n in name for n in names):
            continue
        tmp = tempfile.mkdtemp(prefix="eao_mut_", dir="/tmp")
        try:
            shutil.copytree("/repo/eaopack", os.path.join(tmp, "eaopack"))
            p = os.path.join(tmp, f)
            s = open(p).read()
            if old not in s:
                print("%-36s  PATTERN NOT FOUND" % name)
                results[name] = "pattern not found"
                continue
            open(p, "w").write(s.replace(old, new, 1))
            caught = []
            for c in checks:
                if not os.path.exists(os.path.join(ROOT, "eaoverif", "props", c.lower() + ".py")):
                    continue
                env = dict(os.environ, EAO_REPO=tmp)
                r = subprocess.run([os.path.join(ROOT, "check"), c, "--tier", "quick", "--no-evidence"],
                                   env=env, capture_output=True, text=True, timeout=3000)
                viol = [l for l in r.stdout.splitlines() if l.startswith("  violated")][:1]
                caught.append((c, r.returncode, viol[0][:140] if viol else ""))
            results[name] = caught
            print("%-36s  %s" % (name, "  ".join("%s:%s" % (c, {0: "MISSED", 1: "caught", 2: "harness"}.get(rc, rc)) for c, rc, _ in caught)))
            for c, rc, v in caught:
                if v:
                    print("      %s %s" % (c, v))
        finally:
            shutil.rmtree(tmp, ignore_errors=True)
    return results


if __name__ == "__main__":
    run(sys.argv[1:])
