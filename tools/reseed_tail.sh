#!/bin/bash
# second half of the seed regression (runs next to `tools/reseed.py`, which works through the seeds alphabetically)
cd "$(dirname "$0")/.."
python3 tools/reseed.py 'C20*'; python3 tools/reseed.py 'C19*'; python3 tools/reseed.py 'C18*'; python3 tools/reseed.py 'C17*'; python3 tools/reseed.py 'C16*'; python3 tools/reseed.py 'C15*'; python3 tools/reseed.py 'C14*'; python3 tools/reseed.py 'C13*'
