#!/venv/bin/python
"""discards.py <ID> <N> <substring> [seed]: generate N cases of a check and print the first specs whose discard reason
contains the substring (diagnostic: which inputs does a check drop, and is a defect hiding there?)"""
import importlib, json, os, sys, warnings
warnings.filterwarnings("ignore")
root = os.path.dirname(os.path.dirname(os.path.abspath(__file__)))
sys.path[:0] = [os.environ.get("EAO_REPO", "/repo"), root]
import hypothesis
from hypothesis import given, settings, HealthCheck
pid, N, pat = sys.argv[1], int(sys.argv[2]), sys.argv[3]
seed = int(sys.argv[4]) if len(sys.argv) > 4 else 1
mod = importlib.import_module("eaoverif.props." + pid.lower())
found = []

@hypothesis.seed(seed)
@settings(max_examples=N, database=None, deadline=None, suppress_health_check=list(HealthCheck), phases=[hypothesis.Phase.generate])
@given(mod.strategy("quick"))
def run(spec):
    o = mod.check(spec)
    if o.discard and pat in o.discard and len(found) < 3:
        found.append(spec)
        print(o.discard)
        print(json.dumps(spec)[:3000])
run()
print(len(found), "found")
