#!/usr/bin/env python3
"""[VERIF_SEED=n] reseed.py [pattern]: re-run every kept seeded change (seeded/*/patch.diff) against the first check recorded as
detecting it (quick tier, scratch copy, suite skipped) and list the ones that are no longer reported.
Used after generators or oracles change: a strengthened check must not have lost an earlier detection."""
import glob, json, os, subprocess, sys
root = os.path.dirname(os.path.dirname(os.path.abspath(__file__)))
pat = sys.argv[1] if len(sys.argv) > 1 else "*"
lost, n = [], 0
for d in sorted(glob.glob(os.path.join(root, "seeded", pat))):
    mp = os.path.join(d, "meta.json")
    if not os.path.exists(mp):
        continue
    m = json.load(open(mp))
    det = m.get("detected_by") or []
    name = os.path.basename(d)
    if not det:
        print(name, "no detecting check recorded", flush=True)
        continue
    own = name.split("-")[0]
    chk = own if own in det else det[0]
    r = subprocess.run([sys.executable, os.path.join(root, "tools", "seedtest.py"), os.path.join(d, "patch.diff"), "-", chk, "--skip-suite"],
                       capture_output=True, text=True, timeout=7200, env=dict(os.environ))      # VERIF_SEED is passed on
    line = r.stdout.strip().splitlines()[-1] if r.stdout.strip() else "{}"
    try:
        res = json.loads(line)
    except Exception:
        res = {}
    rc = res.get("checks", {}).get(chk, {}).get("rc")
    n += 1
    ok = res.get("apply_rc") == 0 and rc == 1
    print(name, chk, "detected" if ok else "NOT DETECTED (apply_rc=%s rc=%s)" % (res.get("apply_rc"), rc), flush=True)
    if not ok:
        lost.append(name)
print("re-run %d seeds, lost: %s" % (n, lost or "none"))
sys.exit(1 if lost else 0)
