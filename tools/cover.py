#!/venv/bin/python
"""cover.py [N] [ID ...]: line coverage of eaopack reached by the generators of the listed checks (default all),
N generated cases per check, single process.  Writes out/coverage.txt (missing lines per file).  Diagnostic only:
tells which parts of the code behind the properties the generators never reach."""
import importlib, os, sys, warnings
warnings.filterwarnings("ignore")
import coverage
repo = os.environ.get("EAO_REPO", "/repo")
root = os.path.dirname(os.path.dirname(os.path.abspath(__file__)))
sys.path[:0] = [repo, root]
N = int(sys.argv[1]) if len(sys.argv) > 1 else 150
ids = sys.argv[2:] or ["C%02d" % i for i in range(1, 21)]
cov = coverage.Coverage(source=[os.path.join(repo, "eaopack")], data_file=None)
cov.start()
import hypothesis
from hypothesis import given, settings, HealthCheck
for pid in ids:
    mod = importlib.import_module("eaoverif.props." + pid.lower())
    n = [0]

    @hypothesis.seed(1)
    @settings(max_examples=N, database=None, deadline=None, suppress_health_check=list(HealthCheck))
    @given(mod.strategy("quick"))
    def run(spec):
        n[0] += 1
        try:
            mod.check(spec)
        except Exception as e:       # diagnostic tool: keep going
            print(pid, "check raised", type(e).__name__, str(e)[:100])
    run()
    print(pid, n[0], "cases", flush=True)
cov.stop()
os.makedirs(os.path.join(root, "out"), exist_ok=True)
with open(os.path.join(root, "out", "coverage.txt"), "w") as f:
    cov.report(show_missing=True, file=f)
print(open(os.path.join(root, "out", "coverage.txt")).read()[-1500:])
