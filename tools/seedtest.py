#!/usr/bin/env python3
"""Confirm a seeded change and run checks against it - all in a scratch copy outside /repo and /verif.

usage: tools/seedtest.py <patch.diff> <demo.py|-> <CHECK>[,<CHECK>...] [--tier quick] [--skip-suite]

1. copies /repo's working tree (without .git) to a scratch directory, 2. runs the demo against the
unchanged copy (must exit 0), 3. applies the patch, 4. runs the existing test suite (must be 100
passed), 5. runs the demo (must exit non-zero), 6. runs the named checks with EAO_REPO=<scratch>,
7. removes the scratch directory.  Prints a JSON summary on the last line.
"""
import json
import os
import shutil
import subprocess
import sys
import tempfile

ROOT = os.path.dirname(os.path.dirname(os.path.abspath(__file__)))


def sh(cmd, env=None, cwd=None, timeout=3600):
    r = subprocess.run(cmd, shell=True, env=env, cwd=cwd, capture_output=True, text=True, timeout=timeout)
    return r.returncode, r.stdout + r.stderr


def main():
    patch, demo, checks = sys.argv[1], sys.argv[2], sys.argv[3].split(",")
    tier = "quick"
    if "--tier" in sys.argv:
        tier = sys.argv[sys.argv.index("--tier") + 1]
    skip_suite = "--skip-suite" in sys.argv
    tmp = tempfile.mkdtemp(prefix="eao_seed_", dir="/tmp")
    out = {"patch": patch, "checks": {}}
    try:
        sh("rsync -a --exclude .git --exclude __pycache__ /repo/ %s/" % tmp)
        env = dict(os.environ, PYTHONPATH=tmp, PYTHONDONTWRITEBYTECODE="1", OMP_NUM_THREADS="1")
        if demo != "-":
            rc, o = sh("/venv/bin/python -W ignore %s" % demo, env=env, cwd=tmp, timeout=900)
            out["demo_unchanged_rc"] = rc
        rc, o = sh("git apply --whitespace=nowarn %s" % os.path.abspath(patch), cwd=tmp)
        if rc != 0:
            rc, o = sh("patch -p1 < %s" % os.path.abspath(patch), cwd=tmp)
        out["apply_rc"] = rc
        if rc != 0:
            out["apply_output"] = o[-400:]
            print(json.dumps(out))
            return
        if not skip_suite:
            rc, o = sh("/venv/bin/python -m pytest -q -p no:cacheprovider -n 8 2>&1 | tail -1", env=env, cwd=tmp, timeout=1800)
            out["suite"] = o.strip()[-80:]
        if demo != "-":
            rc, o = sh("/venv/bin/python -W ignore %s" % demo, env=env, cwd=tmp, timeout=900)
            out["demo_changed_rc"] = rc
        for c in checks:
            if not c:
                continue
            e2 = dict(os.environ, EAO_REPO=tmp)
            rc, o = sh("%s/check %s --tier %s --no-evidence" % (ROOT, c, tier), env=e2, timeout=7200)
            viol = [l.strip() for l in o.splitlines() if l.strip().startswith("violated")][:1]
            out["checks"][c] = {"rc": rc, "first": viol[0][:200] if viol else ""}
    finally:
        shutil.rmtree(tmp, ignore_errors=True)
    print(json.dumps(out))


if __name__ == "__main__":
    main()
