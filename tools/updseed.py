#!/usr/bin/env python3
"""updseed.py <seed-dir-name> <CHECK> '<first violation line>' '<note>' : record a detection obtained after strengthening"""
import json, os, sys
root = os.path.dirname(os.path.dirname(os.path.abspath(__file__)))
name, chk, first, note = sys.argv[1:5]
p = os.path.join(root, "seeded", name, "meta.json")
m = json.load(open(p))
m.setdefault("checks_run", {})[chk] = {"rc": 1, "first": first}
if chk not in m.setdefault("detected_by", []):
    m["detected_by"].append(chk)
m.setdefault("history", []).append(note)
json.dump(m, open(p, "w"), indent=1)
print(name, m["detected_by"])
