#!/usr/bin/env python3
"""Regenerates /verif/MANIFEST.json from the table below (keeps it schema-valid at all times)."""
import json
import os

ROOT = os.path.dirname(os.path.dirname(os.path.abspath(__file__)))

# id -> (technique, level text, level note, design ref)
CHECKS = {
    "C01": ("property-based testing (Hypothesis): invariant over the reported dispatch table of generated portfolios",
            "Exploration: generated portfolios of every asset class (multi-row variables, split, structured) are set up, "
            "optimised and extracted through the real API; the oracle sums the documented dispatch columns per node and "
            "step. Right level: the property is an invariant of every returned solution and the oracle is independent "
            "of how rows are assembled.",
            "Trusted: cvxpy solvers return what EAO reports; column labels as documented. Infeasible cases and set-up "
            "errors of special variants make no claim (counted).",
            "DESIGN.md 5 C01"),
    "C02": ("property-based testing (Hypothesis): differential against an independently written reference LP solved by scipy-HiGHS",
            "Exploration: every generated portfolio is translated twice - by EAO and by a ~250-line textbook model written "
            "from the spec - and both optima are compared; EAO's solution is mapped into the reference model and must be "
            "feasible there and worth the same. Right level: the property is a translation-correctness claim over all "
            "'programs' (portfolios); a differential oracle needs no knowledge of which row binds.",
            "Trusted: refmodel.py (conventions in its docstring), scipy HiGHS linprog, timeline.py. Periods and windows on step boundaries.",
            "DESIGN.md 5 C02"),
    "C03": ("property-based testing (Hypothesis): validity predicate + differential against scipy-HiGHS on raw and assembled problems",
            "Exploration: generated raw problems with all row classes, duplicated mapping rows and every form of the bool "
            "column, plus assembled LP/MIP/split problems, are optimised with every installed solver choice; the returned "
            "vector is checked row by row and the value against an independent optimum; failure reports against an "
            "independent infeasibility proof.",
            "Trusted: scipy HiGHS (MIP presolve switched off and integer bounds rounded after it proved wrong; on a MIP disagreement "
            "an exact enumeration of <= 12 booleans or a feasibility witness decides, DESIGN 12); a deviation that another "
            "solver behind the same EAO translation does not share is attributed to the solver backend, not to EAO.",
            "DESIGN.md 5 C03"),
    "C20": ("property-based testing (Hypothesis): differential against an independent one-variable-per-order LP/MILP + output predicates + metamorphic removal",
            "Exploration: generated order lists (inside/straddling/outside the horizon, overlapping, zero capacity, full "
            "execution) with companions; optimum compared with an independent formulation, reported fractions, dispatch "
            "and costs recomputed from the statement, inert orders removed.",
            "Trusted: refmodel.py order-book part, scipy HiGHS (milp, presolve off).",
            "DESIGN.md 5 C20"),
    "C04": ("property-based testing (Hypothesis): accounting identities between value, cost vector and DCF table",
            "Exploration: for generated portfolios (incl. split/periodic/coarse/scaled/structured/order books) the DCF table "
            "is compared with -c.x over each asset's own variable range derived independently from the concatenation "
            "order and a fresh stand-alone build.",
            "Trusted: numpy; fresh stand-alone builds of the same code give each asset's variable count.",
            "DESIGN.md 5 C04"),
    "C05": ("property-based testing (Hypothesis): physical reference recursion + validity predicates over the solution and the reported series; exhaustive enumeration of all 2^T non-empty-step patterns for the maximum holding duration on grids with unequal steps",
            "Exploration: storages with every listed parameter (inflow, efficiency, start != end, two nodes, windows, blocks, "
            "MIP options) are optimised inside generated portfolios; the fill level is recomputed from Results.x by the "
            "recursion in the statement and compared with bounds, end level and the reported series (also for storages with an own "
            "coarser frequency or periodicity); for the maximum holding duration every pattern of non-empty steps is pinned in "
            "EAO's problem on DST / month grids and must be feasible iff no run exceeds the duration.",
            "Trusted: mapping rows name the storage's charge/discharge variables (var_name disp/disp_in/disp_out). Known "
            "finding D7 (blocks ending on a boundary) is excluded by construction and replayed as KNOWN-FINDING.",
            "DESIGN.md 5 C05"),
    "C06": ("exhaustive enumeration of on/off patterns (itertools.product over 2^T x parameter grid) + property-based testing (Hypothesis) of point membership and end-to-end solutions against a runtime/downtime automaton, a predicate written from the statement and a brute-force reference optimum",
            "Exploration with an exhaustive core: for every parameter set of a grid all 2^T on/off patterns (T = 5 quick, 5..8 "
            "thorough) are pinned in EAO's own rows and decided by MILP feasibility against an automaton; generated points "
            "decide the dispatch-level clauses in both directions (too loose and too tight); optimised solutions are checked "
            "against the predicate, start flags, heat share, fuel identity and a brute-force optimum over all accepted patterns.",
            "Trusted: uc.py (automaton + predicate), scipy-HiGHS milp without presolve for feasibility, refmodel.add_plant. "
            "Profiles exact and monotone; a fall from normal operation into the first shutdown-profile step that exceeds the "
            "ramp is left undecided (statement silent).",
            "DESIGN.md 5 C06"),
    "C07": ("property-based testing (Hypothesis): structural invariants + differential against stand-alone asset problems and against the interval problems of the split build + independent rule for periodic assets, no solver",
            "Exploration: assembled problems of generated portfolios (adversarial names, unmapped variables, appended "
            "variables, several rows per variable) are compared block by block with the stand-alone problem of a fresh "
            "copy of each asset and with the nodal rows recomputed from the mapping; the mapping of the split build must be the "
            "interval mappings shifted by the variables before them; steps of a periodic asset share a variable only whole periods apart.",
            "Trusted: scipy.sparse arithmetic; stand-alone set-up of an asset defines what 'the asset computed for it' means.",
            "DESIGN.md 5 C07"),
    "C08": ("property-based testing (Hypothesis): metamorphic relation (add an out-of-horizon element / clip a take period) with solution transfer",
            "Exploration: a generated portfolio is solved with and without an element placed before/after the horizon or with an "
            "empty window (asset of any simple class, order, take period); value must not move and the solution restricted to "
            "the base portfolio must be feasible and optimal there; reported dispatch must vanish outside every asset's window; "
            "a partly-outside take period must equal the clipped, prorated one row by row.",
            "Trusted: transfer.py (keys from the first mapping row), scipy residual check. A scaled asset's own window governs only "
            "its fixed cost (dispatch follows the base asset's window).",
            "DESIGN.md 5 C08"),
    "C09": ("property-based testing (Hypothesis): metamorphic relation (injective renaming x permutation) with solution transfer and relabelled output tables",
            "Exploration: every generated portfolio is solved under its own names and under adversarial names (numeric strings, "
            "mutual prefixes/suffixes, '<asset>_internal_<node>' look-alikes) in a permuted order; value, transferred solution "
            "and relabelled dispatch/DCF tables must agree.",
            "Trusted: transfer.py; names without parentheses (output label format). Tables are compared at the transferred vector, "
            "so non-unique optima cannot raise an alarm.",
            "DESIGN.md 5 C09"),
    "C10": ("model-based testing of generated operation histories (Hypothesis-generated operation lists interpreted on live objects; model = the same call on objects rebuilt from the pristine spec, for a sample also in a pristine interpreter)",
            "Exploration over histories: sequences of set-up / split set-up / fix-window / optimise / extract / serialise-reload / "
            "cost-sample calls on the same live assets, portfolio, Timegrid objects and price containers, interleaved with "
            "different horizons, zones, frequencies and units; after every step the live result must equal the result of "
            "fresh objects and the caller's price data must be untouched; for a sample of histories the last set-up is "
            "repeated in a pristine interpreter (state kept at module or class level).",
            "Trusted: the fresh-object call is the model (also for expected exceptions). The operation list is the shrinkable replay.",
            "DESIGN.md 5 C10"),
    "C11": ("property-based testing (Hypothesis): round trip to_json / load_from_json with differential set-up against a fresh original",
            "Exploration: every asset class (incl. scaled, structured, linked, CHP variants, order book in both forms) with "
            "every parameter form, naive and zone-aware stamps, stand-alone or in a portfolio with own grid, saved before or "
            "after a set-up; loaded object must build the identical problem, reproduce the JSON and keep the grid (points, zone).",
            "Trusted: build.py constructs the originals; problems compared exactly.",
            "DESIGN.md 5 C11"),
    "C12": ("property-based testing (Hypothesis): metamorphic relation (re-express rates and durations in another main time unit) on the assembled arrays, no solver; reference step lengths on DST / month grids",
            "Exploration: every generated portfolio over all asset classes is built in two main time units with rates multiplied "
            "and durations divided by the unit ratio; c,l,u,A,b,cType must agree to 1e-9 (and the optimum on every 4th case); "
            "on grids with unequal steps dt and the per-step limits are compared with real elapsed time from own UTC arithmetic.",
            "Trusted: the list of rate and duration parameters in c12.py (read off the docstrings); timeline.py.",
            "DESIGN.md 5 C12"),
    "C13": ("property-based testing (Hypothesis): differential against the fine-grid problem with explicit equality rows solved by scipy-HiGHS",
            "Exploration: for every asset class accepting freq / periodicity (one and two variables per step, one and two nodes) "
            "the value is compared with the same portfolio built with the plain asset plus harness-written equalities; the "
            "reported dispatch must be piecewise constant / periodic; set-up must not raise.",
            "Trusted: scipy-HiGHS; positions of coarse intervals and periods computed from step numbers (uniform grids).",
            "DESIGN.md 5 C13"),
    "C14": ("property-based testing (Hypothesis): metamorphic relation split vs unsplit with solution transfer + per-interval reference optima",
            "Exploration: generated portfolios without coupling / with start=end storages are set up split (interval sizes 6h..W, "
            "aligned or not, DST zones, wacc) and unsplit; value must be the sum of independently solved interval optima, "
            "the split solution must be feasible and equally valued in the unsplit problem, equal / not larger than the "
            "unsplit optimum, and balanced on the original grid; gaps without any active asset and fully fixed (consistent or "
            "contradictory) intervals are generated - a reported solution must not contain an infeasible interval.",
            "Trusted: transfer.py, scipy-HiGHS for the interval problems, C01's balance oracle. Grid ends at an ambiguous wall "
            "time are excluded (pandas cannot build the interval range).",
            "DESIGN.md 5 C14"),
    "C15": ("property-based testing (Hypothesis): invariant over the rebuilt problem (bounds pinned exactly on the window, untouched elsewhere) + re-optimisation",
            "Exploration: generated portfolios with multi-row variables (transport, multi-commodity, CHP fuel) are optimised, "
            "rebuilt with fix_time_window as mask / index list / date and same or new prices; bounds are compared variable by "
            "variable with the previous solution and with the unfixed problem built from fresh objects, then re-optimised.",
            "Trusted: mapping rows tell which steps a variable belongs to (checked by C07). Dates between grid points only.",
            "DESIGN.md 5 C15"),
    "C16": ("property-based testing (Hypothesis): differential against the equivalent plain portfolio (scaled parameters / flattened sub-portfolio) with solution transfer",
            "Exploration: scaled assets at a pinned scale are compared with the base asset whose volume/rate parameters are "
            "multiplied by s/S minus the fixed cost; free scales against sampled pinned scales and the returned scale; structured "
            "assets against the flat portfolio with internal nodes as ordinary nodes, solutions transferred both ways.",
            "Trusted: list of scaled parameters in c16.scaled_base, transfer.py. Bases: storage, contracts, transports, multi-commodity, "
            "order book; nested structured assets. Known finding D50 (bases with internal variables raise) is excluded by "
            "construction and replayed as KNOWN-FINDING.",
            "DESIGN.md 5 C16"),
    "C17": ("property-based testing (Hypothesis): defining inequalities of two-stage stochastic / robust problems checked against per-scenario optima from scipy-HiGHS",
            "Exploration: generated portfolios, scenario sets sharing the present and boundaries; the SLP built by make_slp is "
            "decomposed into scenario blocks (feasibility in the deterministic problem, accounting identity with independently "
            "recomputed cost vectors) and bracketed by wait-and-see and expected-value bounds; the robust solution's worst "
            "case is compared with every single-scenario solution.",
            "Trusted: scipy-HiGHS per-scenario solves; cost vectors from fresh portfolios (costs_only). Order books and coarse "
            "storages give variables that span the present/future boundary; robust scenario sets with or without the set-up prices.",
            "DESIGN.md 5 C17"),
    "C18": ("property-based testing (Hypothesis): supergradient inequality checked by re-optimising a perturbed problem with scipy-HiGHS",
            "Exploration: for generated LP portfolios a (node, step) and an injection d of either sign are drawn; the nodal "
            "right-hand side is perturbed and the problem re-solved independently; the reported nodal price must satisfy "
            "V(d) <= V(0) + price*d. Any supergradient passes, so degenerate optima cannot raise an alarm.",
            "Trusted: scipy-HiGHS optimum of the perturbed problem; the row is located from the mapping's dispatch rows, independently "
            "of the order of map_nodal_restr. Split builds, gaps without active assets and penalty-priced slack sources are generated.",
            "DESIGN.md 5 C18"),
    "C19": ("property-based testing (Hypothesis) against an independent UTC-arithmetic reference model",
            "Exploration: thousands of generated grids / windows / interval lists / price inputs per run are compared "
            "with a reference written from the statement (own time arithmetic). No solver, so the comparison is exact; "
            "right level because the property quantifies over an unbounded input space with a cheap exact oracle.",
            "Trusted: pandas time-zone conversion of single stamps and date_range's meaning of a frequency string; "
            "numpy. Claim is 'no counterexample among the generated cases', not absence.",
            "DESIGN.md 5 C19"),
}

NOT_YET = {}


def main():
    props = [json.loads(l) for l in open(os.path.join(ROOT, "properties.jsonl"))]
    checks = []
    na = []
    for p in props:
        pid = p["id"]
        if pid in CHECKS:
            tech, text, note, ref = CHECKS[pid]
            checks.append({
                "property_id": pid,
                "quick_cmd": "./check %s --tier quick" % pid,
                "thorough_cmd": "./check %s --tier thorough" % pid,
                "evidence_file": "evidence/%s.json" % pid,
                "replay_cmd_template": "./check %s --replay {path}" % pid,
                "engine": "eaoverif",
                "level_claimed": {"category": "exploration", "text": text, "design_ref": ref},
                "level_note": note,
                "technique": tech,
            })
        else:
            na.append({"property_id": pid,
                       "reason": NOT_YET.get(pid, "check not built yet (work in progress; designed in DESIGN.md section 5)")})
    m = {
        "version": 1,
        "setup_cmd": "./setup.sh",
        "hooks": {
            "guard": "EAO_VERIF",
            "enable": "no source hooks are needed: every observation point is public API; ./check puts /repo on PYTHONPATH",
            "baseline_off_cmd": "cd /repo && /venv/bin/python -m pytest -ra -q -p no:cacheprovider --timeout=900 --continue-on-collection-errors",
            "source_commits": [],
            "add_only": True,
        },
        "engines": [{
            "name": "eaoverif",
            "path": "eaoverif/",
            "serves_properties": [c["property_id"] for c in checks],
            "kind_free_text": "Hypothesis-driven generated-input search over JSON specs (spec -> fresh EAO objects -> "
                              "oracle); 16 forked workers; shrunk spec = replay file; scipy-HiGHS as independent solver",
        }],
        "checks": checks,
        "not_applicable": na,
        "notes": "All checks: exit 0 held / exit 1 + VIOLATION line / exit 2 harness error. VERIF_SEED selects the "
                 "Hypothesis seed (derived per worker). known_findings.json lists genuine defects (fixed or open).",
    }
    if not na:
        del m["not_applicable"]
    with open(os.path.join(ROOT, "MANIFEST.json"), "w") as f:
        json.dump(m, f, indent=1)
    print("MANIFEST.json: %d checks, %d not applicable" % (len(checks), len(na)))


if __name__ == "__main__":
    main()
