#!/bin/bash
# Offline set-up: the checks need hypothesis next to the repository's own packages in /venv.
# It is normally already importable there; otherwise install it from the offline wheelhouse into
# /verif/.deps (picked up by ./check through PYTHONPATH).  Nothing is fetched from a network.
cd "$(dirname "$0")" || exit 2
export PIP_NO_INDEX=1
if ! /venv/bin/python -c "import hypothesis" 2>/dev/null; then
  /venv/bin/pip install --no-index --find-links /opt/veriftools/wheels --target /verif/.deps hypothesis || exit 2
fi
PYTHONPATH=/repo:/verif:/verif/.deps /venv/bin/python -c "import hypothesis, scipy, numpy, pandas, cvxpy, eaopack; print('setup ok: hypothesis', hypothesis.__version__)" || exit 2
mkdir -p /verif/evidence /verif/out
