"""Runner:  python -m eaoverif.run <ID> [--tier quick|thorough] [--replay file] [--workers N]

exit 0  property held on everything explored (KNOWN-FINDING lines possible)
exit 1  a violation was found; prints  VIOLATION property=<ID> replay=<path>
exit 2  harness problem (never prints VIOLATION)
"""
import argparse
import collections
import glob
import importlib
import json
import multiprocessing
import os
import sys
import time
import traceback

from . import core

ROOT = os.path.dirname(os.path.dirname(os.path.abspath(__file__)))
EVID_DIR = os.path.join(ROOT, "evidence")
REPLAY_DIR = os.path.join(ROOT, "replays")
FOUND_DIR = os.path.join(ROOT, "out", "found")
KNOWN_FILE = os.path.join(ROOT, "known_findings.json")


def load_module(pid):
    return importlib.import_module("eaoverif.props." + pid.lower())


def load_known():
    if not os.path.exists(KNOWN_FILE):
        return []
    with open(KNOWN_FILE) as f:
        return json.load(f).get("findings", [])


def clean(spec):
    """pure-JSON deep copy (so that a check can never alter what is replayed)."""
    return json.loads(core.canon(spec))


class Stats:
    def __init__(self):
        self.evaluations = 0
        self.nontrivial = set()
        self.labels = collections.Counter()
        self.samples = []
        self.discards = 0
        self.discard_samples = {}     # reason -> first spec dropped for it (errors only; diagnostic, see out/discards/)
        self.failure = None      # (spec, violations)
        self.harness = None      # traceback text

    def record(self, spec, out, max_samples=4):
        self.evaluations += 1
        for l in out.labels:
            self.labels[l] += 1
        if out.discard is not None:
            self.discards += 1
            if "rror" in out.discard and out.discard not in self.discard_samples and len(self.discard_samples) < 8:
                self.discard_samples[out.discard] = spec
        if out.nontrivial and out.discard is None:
            h = core.spec_hash(spec)
            if h not in self.nontrivial:
                self.nontrivial.add(h)
                if len(self.samples) < max_samples:
                    self.samples.append(spec)

    def as_dict(self):
        return {"evaluations": self.evaluations, "nontrivial": sorted(self.nontrivial),
                "labels": dict(self.labels), "samples": self.samples, "discards": self.discards,
                "discard_samples": self.discard_samples,
                "failure": self.failure, "harness": self.harness}


def run_case(mod, spec):
    out = mod.check(spec)
    if not isinstance(out, core.Outcome):
        raise core.HarnessError("check() must return an Outcome")
    return out


def _worker(args):
    pid, tier, seed, widx, n_examples, shrink_budget = args
    import faulthandler, signal
    faulthandler.register(signal.SIGUSR1, all_threads=True)
    import hypothesis
    from hypothesis import given, settings, HealthCheck, Phase
    mod = load_module(pid)
    stats = Stats()
    state = {"after": 0}

    class _Fail(Exception):
        pass

    def body(spec):
        if stats.harness is not None:
            return
        spec = clean(spec)
        if stats.failure is not None:
            state["after"] += 1
            if state["after"] > shrink_budget:
                return
        try:
            out = run_case(mod, clean(spec))
        except Exception:  # harness problem (EAO exceptions are caught inside the checks)
            stats.harness = traceback.format_exc() + "\nspec=" + core.canon(spec)
            return
        if stats.failure is None:
            stats.record(spec, out)
        if out.violations:
            stats.failure = (spec, out.violations)
            raise _Fail(out.violations[0])

    test = given(mod.strategy(tier))(body)
    test = settings(max_examples=n_examples, database=None, deadline=None,
                    report_multiple_bugs=False, derandomize=False,
                    suppress_health_check=list(HealthCheck),
                    phases=[Phase.generate, Phase.shrink], print_blob=False)(test)
    test = hypothesis.seed(core.derive_seed(seed, pid, tier, widx))(test)
    try:
        with core.quiet():
            test()
    except _Fail:
        pass
    except BaseException:  # Flaky etc. after the shrink budget, or hypothesis internal
        if stats.failure is None and stats.harness is None:
            stats.harness = traceback.format_exc()
    return stats.as_dict()


def _replay_job(args):
    pid, path = args
    mod = load_module(pid)
    try:
        with core.quiet():
            out, _ = replay_file(mod, path)
        return (path, out.violations, None)
    except Exception:
        return (path, None, traceback.format_exc())


def merge(dicts):
    tot = Stats()
    fails = []
    for d in dicts:
        tot.evaluations += d["evaluations"]
        tot.nontrivial.update(d["nontrivial"])
        tot.labels.update(d["labels"])
        tot.discards += d["discards"]
        for k_, v_ in d.get("discard_samples", {}).items():
            tot.discard_samples.setdefault(k_, v_)
        for s in d["samples"]:
            if len(tot.samples) < 5:
                tot.samples.append(s)
        if d["failure"] is not None:
            fails.append(d["failure"])
        if d["harness"] is not None and tot.harness is None:
            tot.harness = d["harness"]
    if fails:
        fails.sort(key=lambda f: len(core.canon(f[0])))
        tot.failure = fails[0]
    return tot


def save_found(pid, spec, violations, seed, tier):
    os.makedirs(FOUND_DIR, exist_ok=True)
    path = os.path.join(FOUND_DIR, "%s-%s.json" % (pid, core.spec_hash(spec)))
    with open(path, "w") as f:
        json.dump({"property": pid, "seed": seed, "tier": tier, "violations": violations,
                   "spec": spec}, f, indent=1, sort_keys=True, default=core._json_default)
    return path


def replay_file(mod, path):
    with open(path) as f:
        d = json.load(f)
    spec = d["spec"] if "spec" in d else d
    out = run_case(mod, clean(spec))
    return out, d


def main(argv=None):
    ap = argparse.ArgumentParser()
    ap.add_argument("pid")
    ap.add_argument("--tier", default=None)
    ap.add_argument("--replay", default=None)
    ap.add_argument("--workers", type=int, default=int(os.environ.get("VERIF_WORKERS", "16")))
    ap.add_argument("--examples", type=int, default=None)
    ap.add_argument("--no-evidence", action="store_true")
    a = ap.parse_args(argv)
    pid = a.pid.upper()
    tier = a.tier or os.environ.get("VERIF_TIER") or "quick"
    if tier not in ("quick", "thorough"):
        tier = "quick"
    try:
        seed = int(os.environ.get("VERIF_SEED", "1"))
    except ValueError:
        seed = 1
    t0 = time.time()
    try:
        mod = load_module(pid)
    except Exception:
        traceback.print_exc()
        print("HARNESS-ERROR: cannot load check for", pid)
        return 2

    # ------------------------------------------------------------ single replay
    if a.replay:
        try:
            out, d = replay_file(mod, a.replay)
        except Exception:
            traceback.print_exc()
            print("HARNESS-ERROR during replay")
            return 2
        if out.violations:
            for v in out.violations:
                print("  violated:", v)
            print("VIOLATION property=%s replay=%s" % (pid, a.replay))
            return 1
        print("replay holds (%s)" % ("discarded: " + out.discard if out.discard else "ok"))
        return 0

    violations = []          # (spec, [msgs], path)
    known_lines = []
    harness = None
    replays_run = 0
    exh = None
    tot = Stats()
    # All solver work happens in forked children; the parent stays free of solver state
    # (HiGHS' task scheduler does not survive a fork once it has been used in the parent).
    ctx = multiprocessing.get_context("fork")
    pool = ctx.Pool(max(1, a.workers))
    try:
        # -------------------------------------------------------- known findings + regression replays
        known = [k for k in load_known() if k.get("property") == pid]
        open_known = {os.path.abspath(os.path.join(ROOT, k["replay"])): k for k in known if k.get("status") == "open"}
        paths = sorted(set(list(open_known) + [os.path.abspath(p) for p in glob.glob(os.path.join(REPLAY_DIR, pid, "*.json"))]))
        if os.environ.get("VERIF_SKIP_REPLAYS"):      # sensitivity experiments only: generated search alone
            paths = sorted(open_known)
        for path, viol, err in pool.map(_replay_job, [(pid, p) for p in paths]):
            if err is not None:
                harness = err
                continue
            replays_run += 1
            if path in open_known:
                k = open_known[path]
                if viol:
                    line = "KNOWN-FINDING: property=%s %s" % (pid, k["what"])
                    print(line)
                    known_lines.append(line)
                else:
                    print("note: listed finding %s no longer reproduces (%s)" % (k.get("id"), k["what"]))
            elif viol:
                violations.append((None, viol, path))

        # -------------------------------------------------------- exhaustive / enumerated part
        if hasattr(mod, "exhaustive") and not violations and harness is None:
            try:
                exh = mod.exhaustive(tier, seed, pool)
            except Exception:
                harness = traceback.format_exc()
            if exh and exh.get("failures"):
                spec, msgs = exh["failures"][0]
                violations.append((spec, msgs, None))

        # -------------------------------------------------------- generated part
        n_total = a.examples or mod.EXAMPLES[tier]
        if not violations and harness is None and n_total > 0:
            W = max(1, min(a.workers, n_total // 8 or 1))
            per = max(1, n_total // W)
            shrink_budget = getattr(mod, "SHRINK_BUDGET", {"quick": 250, "thorough": 1200})[tier]
            jobs = [(pid, tier, seed, w, per, shrink_budget) for w in range(W)]
            res = list(pool.imap_unordered(_worker, jobs))
            tot = merge(res)
            if tot.harness is not None:
                harness = tot.harness
            if tot.failure is not None:
                violations.append((tot.failure[0], tot.failure[1], None))
    finally:
        pool.terminate()
        pool.join()

    # ------------------------------------------------------------ evidence
    evaluations = tot.evaluations + replays_run
    nontriv = len(tot.nontrivial)
    samples = list(tot.samples)
    labels = dict(tot.labels)
    coverage_extra = {}
    if exh:
        evaluations += exh.get("evaluations", 0)
        nontriv += exh.get("distinct_nontrivial", 0)
        samples += exh.get("samples", [])[:3]
        coverage_extra["enumerated"] = {k: v for k, v in exh.items() if k not in ("failures", "samples")}
    wall = time.time() - t0
    ev = {
        "property_id": pid, "tier": tier, "seed": seed,
        "level": getattr(mod, "LEVEL", "exploration"),
        "coverage": dict({
            "evaluations": int(evaluations),
            "distinct_nontrivial": int(nontriv),
            "rule": mod.RULE,
            "samples": samples[:6],
            "class_histogram": dict(sorted(labels.items())),
            "generated_cases": int(tot.evaluations),
            "discarded_cases": int(tot.discards),
            "replayed_saved_cases": int(replays_run),
            "known_findings_reported": known_lines,
            "exhaustive": bool(exh.get("exhaustive", False)) if exh else False,
        }, **coverage_extra),
        "assumptions": list(getattr(mod, "ASSUMPTIONS", [])),
        "wall_s": round(wall, 2),
        "violations": len(violations),
    }
    if not tot.discard_samples and os.path.exists(os.path.join(ROOT, "out", "discards", pid + ".json")):
        os.remove(os.path.join(ROOT, "out", "discards", pid + ".json"))
    if tot.discard_samples:
        # diagnostic only: one dropped input per error class (is a defect hiding among the discarded cases?)
        ddir = os.path.join(ROOT, "out", "discards")
        os.makedirs(ddir, exist_ok=True)
        with open(os.path.join(ddir, pid + ".json"), "w") as f:
            json.dump(tot.discard_samples, f, indent=1, sort_keys=True, default=core._json_default)
    if not a.no_evidence:
        os.makedirs(EVID_DIR, exist_ok=True)
        with open(os.path.join(EVID_DIR, pid + ".json"), "w") as f:
            json.dump(ev, f, indent=1, sort_keys=True, default=core._json_default)

    print("%s tier=%s seed=%d: %d cases (%d generated, %d discarded), %d distinct non-trivial, %.1fs"
          % (pid, tier, seed, evaluations, tot.evaluations, tot.discards, nontriv, wall))
    if violations:
        for spec, msgs, path in violations:
            for m in msgs[:5]:
                print("  violated:", m)
            if path is None:
                path = save_found(pid, spec, msgs, seed, tier)
            print("VIOLATION property=%s replay=%s" % (pid, path))
        return 1
    if harness is not None:
        print(harness)
        print("HARNESS-ERROR in check for", pid)
        return 2
    floor = getattr(mod, "MIN_NONTRIVIAL", 2)
    if nontriv < floor:
        print("HARNESS-ERROR: only %d non-trivial cases generated (generator health)" % nontriv)
        return 2
    if tot.evaluations and tot.discards > 0.35 * tot.evaluations:
        print("HARNESS-ERROR: %d of %d cases discarded (generator health)" % (tot.discards, tot.evaluations))
        return 2
    return 0


if __name__ == "__main__":
    sys.exit(main())
