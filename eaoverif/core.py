"""Shared small things: outcomes, hashing, tolerances, guarded calls into EAO."""
import contextlib
import hashlib
import io
import json
import os
import sys
import traceback
import warnings

import numpy as np

warnings.filterwarnings("ignore")


class HarnessError(Exception):
    """Something is wrong with the verification machinery itself (exit 2, never VIOLATION)."""


class Outcome:
    """Result of one executed case."""

    __slots__ = ("violations", "nontrivial", "labels", "discard", "info")

    def __init__(self):
        self.violations = []   # list of str
        self.nontrivial = False
        self.labels = []       # list of str, counted in the class histogram
        self.discard = None    # reason string if the case made no claim
        self.info = {}

    def fail(self, msg):
        self.violations.append(str(msg))
        return self

    def label(self, *ls):
        for l in ls:
            if l is not None:
                self.labels.append(str(l))
        return self

    def drop(self, why):
        self.discard = str(why)
        self.label("discard:" + str(why))
        return self


def canon(spec):
    return json.dumps(spec, sort_keys=True, separators=(",", ":"), default=_json_default)


def _json_default(o):
    if isinstance(o, (np.integer,)):
        return int(o)
    if isinstance(o, (np.floating,)):
        return float(o)
    if isinstance(o, np.ndarray):
        return o.tolist()
    if isinstance(o, (np.bool_,)):
        return bool(o)
    return str(o)


def spec_hash(spec):
    return hashlib.sha1(canon(spec).encode()).hexdigest()[:16]


def derive_seed(*parts):
    h = hashlib.sha256(":".join(str(p) for p in parts).encode()).hexdigest()
    return int(h[:12], 16)


# ---------------------------------------------------------------- tolerances (DESIGN 3.3)
def tol_val(v, mip=False):
    return (2e-4 if mip else 2e-5) * (1.0 + abs(v))


def tol_feas(scale):
    return 1e-6 * (1.0 + abs(scale))


RTOL_STRUCT = 1e-9
ATOL_STRUCT = 1e-12


def close_struct(a, b):
    a = np.asarray(a, dtype=float)
    b = np.asarray(b, dtype=float)
    if a.shape != b.shape:
        return False
    return bool(np.allclose(a, b, rtol=RTOL_STRUCT, atol=ATOL_STRUCT, equal_nan=True))


# ---------------------------------------------------------------- guarded calls
class EaoError:
    """An exception raised by EAO code during a guarded call."""

    def __init__(self, exc, tb):
        self.exc = exc
        self.tb = tb
        self.kind = type(exc).__name__

    def short(self):
        # innermost eaopack frame
        frames = [f for f in traceback.extract_tb(self.exc.__traceback__) if "eaopack" in f.filename]
        where = ""
        if frames:
            f = frames[-1]
            where = " at %s:%d" % (os.path.basename(f.filename), f.lineno)
        msg = str(self.exc).replace("\n", " ")[:160]
        return "%s%s: %s" % (self.kind, where, msg)

    def __bool__(self):
        return False


@contextlib.contextmanager
def quiet():
    """Silence EAO's prints (warnings about rounding, solver status)."""
    old = sys.stdout
    sys.stdout = io.StringIO()
    try:
        yield
    finally:
        sys.stdout = old


def eao_call(fn, *a, **k):
    """Call into EAO; return its result or an EaoError (never raises for EAO's own exceptions)."""
    try:
        with quiet():
            return fn(*a, **k)
    except HarnessError:
        raise
    except Exception as e:  # noqa
        return EaoError(e, traceback.format_exc())


def is_err(x):
    return isinstance(x, EaoError)
