"""Carry a solution from one assembled problem to another through the mapping.

Key of a variable = (asset, var_name, node, time_step) of its FIRST mapping row.  "Same dispatch"
claims are decided by transferring a solution and asking whether it is feasible for the other
problem and attains its optimum - never by comparing two optimal vectors directly (optima are
rarely unique).
"""
import numpy as np

from . import lpkit


def _norm(v):
    if v is None:
        return None
    if isinstance(v, float) and np.isnan(v):
        return None
    return str(v)


def keys_of(op, rename=None):
    """dict key -> variable number, and list of variables without mapping row"""
    mp = op.mapping
    first = ~mp.index.duplicated(keep="first")
    m1 = mp[first]
    out = {}
    dup = []
    vn = m1["var_name"].values if "var_name" in m1.columns else [None] * len(m1)
    for i, a, v, n, t in zip(m1.index.values, m1["asset"].values, vn, m1["node"].values, m1["time_step"].values):
        k = (_norm(a), _norm(v), _norm(n), int(t))
        if rename is not None:
            k = rename(k)
        if k in out:
            dup.append(k)
        out[k] = int(i)
    n = len(op.c)
    mapped = set(int(i) for i in mp.index.values)
    unmapped = [j for j in range(n) if j not in mapped]
    return out, unmapped, dup


def transfer(opA, xA, opB, rename=None, default=0.0):
    """x for problem B built from the solution xA of problem A.

    rename maps keys of A to keys of B.  Returns (xB, missing_in_A, unused_from_A)."""
    ka, _, dupa = keys_of(opA, rename)
    kb, unmapped_b, dupb = keys_of(opB)
    xB = np.full(len(opB.c), np.nan)
    missing = []
    for k, j in kb.items():
        if k in ka:
            xB[j] = xA[ka[k]]
            continue
        # contracts / storages use one variable 'disp' or a pair 'disp_in' (<= 0) / 'disp_out' (>= 0)
        # per step depending on conditions over the whole grid - same dispatch, other variables
        a, v, n, t = k
        if v in ("disp_in", "disp_out") and (a, "disp", n, t) in ka:
            xa = xA[ka[(a, "disp", n, t)]]
            xB[j] = min(xa, 0.0) if v == "disp_in" else max(xa, 0.0)
        elif v == "disp" and ((a, "disp_in", n, t) in ka or (a, "disp_out", n, t) in ka):
            xB[j] = sum(xA[ka[kk]] for kk in ((a, "disp_in", n, t), (a, "disp_out", n, t)) if kk in ka)
        else:
            missing.append(k)
    for j in unmapped_b:
        xB[j] = min(max(default, opB.l[j]), opB.u[j])
    for j in np.where(np.isnan(xB))[0]:
        xB[j] = min(max(default, opB.l[j]), opB.u[j])
    unused = [k for k in ka if k not in kb]
    return xB, missing, unused, dupa + dupb


def judge(opB, xB, vB, mip=False, slack=1.0):
    """(messages) for: xB feasible for B and worth vB (B's optimum)"""
    from . import core
    raw = lpkit.from_op(opB)
    msgs = []
    worst, where = lpkit.residual(raw, xB)
    tf = core.tol_feas(raw.scale()) * (10 if mip else 1) * 10 * slack
    if worst > tf:
        msgs.append("transferred solution violates %s by %g" % (where, worst))
    val = float(-raw.c @ xB)
    tv = core.tol_val(vB, mip) * 2 * slack + 1e-7 * float(np.abs(raw.c * xB).sum())
    if vB is not None and abs(val - vB) > tv:
        msgs.append("transferred solution is worth %.9g, optimum is %.9g" % (val, vB))
    return msgs
