"""Property-based verification machinery for EnergyAssetOptimization/EAO (package ``eaopack``).

Everything here reads the *current working tree* of /repo through PYTHONPATH (see /verif/check);
nothing is cached or installed.
"""
