"""Reference set-up in a pristine interpreter: python -m eaoverif.pristine < request.json > answer.json

C10's model - the same call on objects rebuilt from the spec - lives in the same process as the objects under test, so
state kept at module or class level (a cache in a class body, a module-level dictionary) is shared by both sides and
cannot show.  For a sample of histories the last set-up is therefore repeated here, in an interpreter that has built
nothing else before."""
import json
import sys
import warnings

warnings.filterwarnings("ignore")


def main():
    import io
    import contextlib
    import numpy as np
    import scipy.sparse as sp
    req = json.load(sys.stdin)
    with contextlib.redirect_stdout(io.StringIO()):
        from eaoverif import build
        from eaoverif.core import eao_call, is_err
        from eaoverif.props import c07, c10
        from eaopack.portfolio import Portfolio
        spec, st_ = req["spec"], req["step"]
        k, gi = st_["k"], st_["g"]
        assets = c10.build_assets(spec)
        grid = build.build_grid(spec["grids"][gi])
        prices = c10.price_container(spec, gi, st_.get("use_frame", False))
        if st_["op"] == "setup_asset":
            res = eao_call(assets[k].setup_optim_problem, prices, grid)
        elif st_["op"] == "setup_split":
            res = eao_call(Portfolio(assets).setup_split_optim_problem, prices, grid, interval_size=st_["interval"])
        else:
            res = eao_call(Portfolio(assets).setup_optim_problem, prices, grid)
    if is_err(res):
        ans = {"error": res.short()}
    else:
        ops = res.ops if hasattr(res, "ops") else [res]
        ans = {"ops": []}
        for o in ops:
            A = sp.coo_matrix(o.A) if o.A is not None and len(o.cType or "") else sp.coo_matrix((0, len(o.c)))
            ans["ops"].append({"c": np.asarray(o.c, float).tolist(), "l": np.asarray(o.l, float).tolist(),
                               "u": np.asarray(o.u, float).tolist(),
                               "b": np.asarray(o.b, float).tolist() if o.b is not None else [], "cType": o.cType or "",
                               "A": [A.row.tolist(), A.col.tolist(), A.data.tolist(), list(A.shape)],
                               "mapping": [list(r) for r in (c07.mapping_records(o.mapping) if len(o.mapping) else [])]})
    sys.stdout.write(json.dumps(ans))


if __name__ == "__main__":
    main()
