"""Run the real API on a spec and collect what the oracles look at."""
import numpy as np
import pandas as pd

from eaopack.io import extract_output

from . import build, core, lpkit
from .core import eao_call, is_err


class Run:
    """fresh objects + assembled problem (+ solution, output) for a spec"""

    def __init__(self, spec, split=None, setup=True, fix_time_window=None, preset_grid=False):
        self.spec = spec
        self.pf, self.grid, self.prices = build.build_all(spec)
        self.split = split
        self.op = None
        self.res = None
        self.out = None
        if setup:
            if split and fix_time_window is not None:
                self.op = eao_call(self.pf.setup_split_optim_problem, self.prices, self.grid, interval_size=split,
                                   fix_time_window=fix_time_window)
            elif split:
                self.op = eao_call(self.pf.setup_split_optim_problem, self.prices, self.grid, interval_size=split)
            elif fix_time_window is not None and preset_grid:
                # documented call form: grid set beforehand, `timegrid` left at its default
                self.pf.set_timegrid(self.grid)
                self.op = eao_call(self.pf.setup_optim_problem, self.prices, fix_time_window=fix_time_window)
            elif fix_time_window is not None:
                self.op = eao_call(self.pf.setup_optim_problem, self.prices, self.grid,
                                   fix_time_window=fix_time_window)
            else:
                self.op = eao_call(self.pf.setup_optim_problem, self.prices, self.grid)

    @property
    def is_mip(self):
        if is_err(self.op) or self.op is None:
            return False
        if self.split:
            return any(len(lpkit.bools_of_mapping(o.mapping)) > 0 for o in self.op.ops)
        return len(lpkit.bools_of_mapping(self.op.mapping)) > 0

    def optimize(self, solver=None, **kw):
        if solver is None and self.is_mip:
            solver = "SCIP"    # cvxpy's SCIPY/HiGHS MIP interface wrongly reports some feasible MIPs infeasible
        if solver is None:
            self.res = eao_call(self.op.optimize, **kw)
        else:
            self.res = eao_call(self.op.optimize, solver=solver, **kw)
        return self.res

    def output(self):
        self.out = eao_call(extract_output, self.pf, self.op, self.res, self.prices)
        return self.out

    def solved(self):
        return self.res is not None and not is_err(self.res) and not isinstance(self.res, str)


def status_label(res):
    if is_err(res):
        return "optimize_error"
    if isinstance(res, str):
        return "status:" + res.replace(" ", "_")
    return "status:optimal"


def asset_specs_flat(spec):
    """top-level asset specs"""
    return list(spec["assets"])


def classes_of(spec):
    out = []
    for a in spec["assets"]:
        if a["name"].startswith(("mb", "ms")) and a.get("price", "").startswith("pm_"):
            continue
        t = a["type"]
        if a.get("freq"):
            t += "+coarse"
        if a.get("periodicity"):
            t += "+periodic"
        out.append(t)
    return out
