"""C04  Value accounting: reported value = sum of per-asset discounted cash flows."""
import numpy as np
from hypothesis import strategies as st

from .. import core, gen, build, obs, lpkit
from .. import timeline as tl
from ..core import Outcome, is_err, eao_call

ID = "C04"
LEVEL = "exploration"
EXAMPLES = {"quick": 1400, "thorough": 24000}
RULE = ("Generated: same portfolio mix as C01 (all asset classes incl. split, periodic, coarse, scaled, structured, "
        "order books with orders outside the horizon, MIP assets). Oracle: summary value = Results.value; "
        "sum over the DCF table = Results.value; per asset sum_t DCF[a] = -c[r_a].x[r_a] where the variable range r_a "
        "follows from the concatenation order and the length of the asset's own stand-alone problem built from a "
        "fresh copy (monolithic builds; per mapping for split builds); DCF is zero outside the asset's window. "
        "Non-trivial: optimal, >= 2 assets with non-zero DCF and a build that re-indexes (split / periodic / coarse / "
        "structured / scaled / order book). Distinct = distinct spec hash.")
RULE += (' Round 5: a portfolio asset named like an asset wrapped in a structured asset; MIP portfolios optimised relaxed (make_soft_problem) in a third of the cases - the identities hold for whatever solution is reported.')
ASSUMPTIONS = ["tolerance 2e-6*(1+|value|) on sums of products of solver output",
               "set-up errors of special variants are discarded and counted (owned by C13/C08)"]

SPLITS = ["6h", "7h", "12h", "d", "2d"]


@st.composite
def _book_last(draw):
    """split build whose last asset is an order book with chronological orders (one per interval and some
    spanning): in early intervals its trailing variables have no mapping row"""
    g = draw(gen.grids(min_T=6, max_T=14, freqs=["h", "h", "2h"]))
    T = g["T"]
    prices = {"p0": draw(gen.price_series(T))}
    cx = gen.Cx(g, ["n0"], prices)
    assets = gen.markets(cx, draw=draw)
    if draw(st.booleans()):
        assets.append(gen.a_simple(draw, cx, "a0"))
    cuts = sorted(set(draw(st.lists(st.integers(1, T - 1), min_size=1, max_size=4))))
    bounds = [0] + cuts + [T]
    orders = []
    for s, e in zip(bounds[:-1], bounds[1:]):
        orders.append([s, e, gen.rate(draw, cx, 0.5, 3) * draw(st.sampled_from([1, -1])), draw(gen.dyadic(0, 12))])
    assets.append({"type": "orderbook", "name": "book", "nodes": ["n0"], "orders": orders, "full_exec": False,
                   "wacc": draw(st.sampled_from([0.0, 0.05]))})
    return {"grid": g, "prices": cx.prices, "assets": assets, "markets": True,
            "split": draw(st.sampled_from(["3h", "4h", "6h", "7h"]))}


@st.composite
def _strategy(draw):
    if draw(st.integers(0, 9)) == 0:
        return draw(_book_last())
    spec = draw(gen.portfolios_all())
    spec["split"] = draw(st.one_of(st.none(), st.none(), st.none(), st.sampled_from(SPLITS)))
    spec["soft"] = draw(st.integers(0, 2)) == 0      # (only looked at for problems with binary variables)
    if spec["split"] is None and draw(st.integers(0, 5)) == 0:
        # optimised with the robust target over two price samples (the identities concern the reported value and the
        # reported tables, whatever the target)
        spec["robust_samples"] = [{k: (draw(gen.price_series(spec["grid"]["T"])) if k.startswith("p") and not k.startswith("pm") else v)
                                   for k, v in spec["prices"].items()} for _ in range(2)]
    T = spec["grid"]["T"]
    r = draw(st.integers(0, 11))
    if r == 0:
        # the asset that is set up last has no step in the horizon (already contracted, starts later / ended before)
        n0 = build.all_nodes(spec)[0]
        late = draw(st.booleans())
        spec["assets"].append({"type": "simple", "name": "zz_out", "nodes": [n0], "price": "p0", "min_cap": -1.0, "max_cap": 1.0,
                               "extra_costs": 0.25, "wacc": 0.0, "start": T + 1 if late else -4, "end": T + 3 if late else -1})
        spec["last_outside"] = True
    elif r == 1:
        # a structured asset whose link to its external node is not active in the horizon while assets at the internal
        # node trade with each other (all its variables are internal then)
        if not any(a["type"] == "structured" for a in spec["assets"]):
            cx_ = gen.Cx(spec["grid"], build.all_nodes(spec), spec["prices"])
            spec["assets"].insert(0, gen.a_structured(draw, cx_, "zs", with_window=False))
        for a in spec["assets"]:
            if a["type"] == "structured":
                link = a["assets"][1]
                link["start"], link["end"] = T + 1, T + 3
                i0 = [n for n in link["nodes"] if n not in a["nodes"]]
                if i0:
                    a["assets"][0].update(min_cap=-2.0, max_cap=2.0, extra_costs=0.0, start=None, end=None)
                    a["assets"].append({"type": "simple", "name": a["name"] + "_xq", "nodes": [i0[0]],
                                        "price": sorted(spec["prices"])[-1], "min_cap": -1.0, "max_cap": 1.0, "extra_costs": 0.125,
                                        "wacc": 0.0, "start": None, "end": None})
                    spec["internal_only"] = True
                break
    elif r == 2:
        # an asset of the portfolio carries the same name as an asset wrapped inside a structured asset (names have to be
        # unique within each portfolio only)
        if not any(a["type"] == "structured" for a in spec["assets"]):
            cx_ = gen.Cx(spec["grid"], build.all_nodes(spec), spec["prices"])
            spec["assets"].insert(0, gen.a_structured(draw, cx_, "zs", with_window=False))
        sa = [a for a in spec["assets"] if a["type"] == "structured"][0]
        inner = draw(st.sampled_from([x for x in sa["assets"] if x["type"] != "structured"] or sa["assets"]))
        if inner["name"] not in [a["name"] for a in spec["assets"]]:
            spec["assets"].append({"type": "simple", "name": inner["name"], "nodes": [build.all_nodes(spec)[0]],
                                   "price": sorted(k for k in spec["prices"] if k.startswith("p"))[0], "min_cap": -1.0, "max_cap": 1.0,
                                   "extra_costs": 0.125, "wacc": 0.0, "start": None, "end": None})
            spec["same_name_as_wrapped"] = True
    return spec


def strategy(tier):
    return _strategy()


def window_mask(spec, a):
    """grid steps inside the asset's own window"""
    T = spec["grid"]["T"]
    s = a.get("start")
    e = a.get("end")
    lo = 0 if s is None else s
    hi = T if e is None else e
    return np.array([lo <= k < hi for k in range(T)])


def check(spec):
    out = Outcome()
    split = spec.get("split")
    r = obs.Run(spec, split=split)
    cls = obs.classes_of(spec)
    out.label(*["class:" + c for c in set(cls)])
    out.label("build:split" if split else "build:monolithic", "last_asset_outside" if spec.get("last_outside") else None,
              "structured_internal_only" if spec.get("internal_only") else None,
              "same_name_as_wrapped_asset" if spec.get("same_name_as_wrapped") else None)
    if is_err(r.op):
        return out.drop("setup_error:" + r.op.kind)
    if spec.get("robust_samples") and not split:
        smp = [{k: np.array(v, float) for k, v in sm.items()} for sm in spec["robust_samples"]]
        cs = eao_call(r.pf.create_cost_samples, smp, r.grid)
        if is_err(cs):
            return out.drop("cost_sample_error")
        res = r.optimize(target="robust", samples=cs)
        out.label("target:robust")
    elif r.is_mip and spec.get("soft") and not split:
        # the relaxed problem (documented option make_soft_problem): the accounting identities hold for whatever
        # solution is reported, also with fractional values of the relaxed binary variables
        res = r.optimize(make_soft_problem=True)
        out.label("relaxed_mip")
    else:
        res = r.optimize()
    if is_err(res):
        return out.drop("optimize_error:" + res.kind)
    out.label(obs.status_label(res))
    x_before = None if isinstance(res, str) else np.array(res.x, float)
    if isinstance(res, str):
        return out.drop("no_solution")
    o = r.output()
    if is_err(o):
        return out.fail("extract_output raised " + o.short())
    V = float(res.value)
    tol = 2e-6 * (1 + abs(V)) + 1e-7 * float(np.abs(r.op.c * res.x).sum())
    sv = float(o["summary"].loc["value", "Values"])
    if abs(sv - V) > tol:
        out.fail("summary value %g != Results.value %g" % (sv, V))
    dcf = o["DCF"]
    names = [a["name"] for a in spec["assets"]]
    for n in names:
        if n not in dcf.columns:
            out.fail("DCF table has no column for asset %s" % n)
    if out.violations:
        return out
    total = float(dcf[names].values.astype(float).sum())
    if abs(total - V) > tol:
        out.fail("sum of DCF table %.9g != reported value %.9g" % (total, V))
    x = np.asarray(res.x, float)
    if x_before is not None and (len(x) != len(x_before) or np.abs(x - x_before).max(initial=0) > 0):
        out.label("x_changed_by_extract_output")      # not part of C04's statement: the identities below decide
        x = x_before
    c = np.asarray(r.op.c, float)
    if len(x) != len(c):
        return out.fail("length of x %d != length of cost vector %d" % (len(x), len(c)))
    if abs(float(-c @ x) - V) > tol:
        out.fail("-c.x = %.9g != reported value %.9g" % (float(-c @ x), V))
    # per-asset identity
    if not split:
        fresh, ctx = build.build_assets(spec)
        grid2 = build.build_grid(spec["grid"])
        pr2 = build.build_prices(spec)
        off = 0
        for a, fa in zip(spec["assets"], fresh):
            so = eao_call(fa.setup_optim_problem, pr2, grid2)
            if is_err(so):
                return out.drop("standalone_setup_error:" + so.kind)
            n_a = len(so.c)
            exp = float(-c[off:off + n_a] @ x[off:off + n_a])
            got = float(dcf[a["name"]].values.astype(float).sum())
            if abs(exp - got) > tol:
                out.fail("asset %s: DCF total %.9g != -c.x over its own variables [%d,%d) = %.9g"
                         % (a["name"], got, off, off + n_a, exp))
            off += n_a
        if off != len(c):
            out.fail("stand-alone problems have %d variables in total, portfolio has %d" % (off, len(c)))
    else:
        # the split problem stacks the variables interval by interval; inside an interval the
        # interval problem's own mapping (checked by the monolithic cases) names each asset's variables
        for a in spec["assets"]:
            exp = 0.0
            off = 0
            for o_ in r.op.ops:
                mpk = o_.mapping
                idx = np.unique(mpk.index[mpk["asset"] == a["name"]].values.astype(int)) if len(mpk) else np.array([], int)
                if len(idx):
                    exp += float(-np.asarray(o_.c, float)[idx] @ x[off + idx])
                off += len(o_.c)
            got = float(dcf[a["name"]].values.astype(float).sum())
            if abs(exp - got) > tol:
                out.fail("asset %s (split): DCF total %.9g != -c.x over its own variables of all intervals %.9g" % (a["name"], got, exp))
    # zero outside window
    for a in spec["assets"]:
        if a["type"] == "scaled":
            continue   # fixed cost of the scale variable is booked on step 0 by documented convention
        m = window_mask(spec, a)
        v = dcf[a["name"]].values.astype(float)
        if np.abs(v[~m]).max(initial=0.0) > tol:
            out.fail("asset %s has cash flow outside its window: %s" % (a["name"], v))
    active = int(sum(np.abs(dcf[n].values.astype(float)).max(initial=0) > 10 * tol for n in names))
    reindex = bool(split) or any(("+" in k) or k in ("structured", "scaled", "orderbook") for k in cls)
    out.nontrivial = active >= 2 and reindex
    return out
