"""C20  Order book: partial or full execution, delivered over the order's window."""
import copy

import numpy as np
from hypothesis import strategies as st

from .. import core, gen, build, obs, lpkit, refmodel
from .. import timeline as tl
from ..core import Outcome, is_err
from . import c02

ID = "C20"
LEVEL = "exploration"
EXAMPLES = {"quick": 1000, "thorough": 20000}
RULE = ("Generated: one or two order books with 1-8 orders each (buy/sell, overlapping, inside / straddling / wholly "
        "outside the horizon, zero capacity), full execution on/off, wacc in {0,.05,.4}, companions (storage, "
        "contracts, transport) and market pairs, grids 2-12 steps x freq x unit x zone (zone-consistent stamps, dict "
        "form). Oracle: independent formulation with one execution variable per order (scipy milp when full "
        "execution is enforced): equal optimum, EAO's solution feasible in it; reported 'special' fractions in [0,1] "
        "(in {0,1} when enforced); dispatch column = sum_k frac_k*capa_k*dt_t over orders covering t; cost per order "
        "= frac*capa*price*sum(dt*disc); removing the orders without in-horizon step changes nothing. "
        "Non-trivial: >= 1 order executed (frac > 0.01) and >= 1 order with an in-horizon step not fully executed "
        "(frac < 0.99). Distinct = distinct spec hash.")
RULE += (' Round 5: orders in the documented DataFrame form (zone-aware on aware grids) in a quarter of the books; daily grids around a daylight-saving switch (equal first and last step) in 1 of 8 cases.')
ASSUMPTIONS = ["order windows lie on step boundaries", "HiGHS milp (presolve off, gap 0) is the reference for full execution",
               "naive order stamps on zone-aware grids are a precondition violation (not generated)"]


@st.composite
def _strategy(draw):
    g = draw(gen.grids(min_T=2, max_T=12))
    if draw(st.integers(0, 7)) == 0:
        # steps of unequal length with equal first and last step: daily steps around a daylight-saving switch
        tz, date = draw(st.sampled_from([("CET", "2021-03-26"), ("CET", "2021-10-29"), ("Europe/London", "2021-10-29"),
                                         ("America/New_York", "2021-03-12"), ("America/New_York", "2021-11-05")]))
        g = {"start": date + " 00:00", "T": draw(st.integers(4, 8)), "freq": "d", "mtu": draw(st.sampled_from(["h", "d"])), "tz": tz}
    nn = draw(st.integers(1, 2))
    nodes = ["n%d" % i for i in range(nn)]
    prices = {"p0": draw(gen.price_series(g["T"])), "p1": draw(gen.price_series(g["T"]))}
    cx = gen.Cx(g, nodes, prices)
    assets = []
    full = draw(st.booleans())
    for i in range(draw(st.integers(1, 2))):
        a = gen.a_orderbook(draw, cx, "ob%d" % i, n_max=8 if not full else 5)
        a["full_exec"] = full
        if draw(st.integers(0, 3)) == 0:
            a["orders_form"] = "frame"       # the documented DataFrame form (stamps zone-aware on aware grids)
        assets.append(a)
    for i in range(draw(st.integers(0, 3))):
        cls = draw(st.sampled_from(["simple", "storage", "contract", "transport"]))
        a = gen.draw_asset(draw, cx, cls, "c%d" % i)
        if a.get("min_take") or a.get("max_take"):
            a["start"] = a["end"] = None
        if a["type"] == "storage":
            a["price"] = None
        assets.append(a)
    if draw(st.integers(0, 9)) < 8:
        assets += gen.markets(cx, cap_q=8.0, lo_price=draw(st.sampled_from([0.5, 2.0, 4.0])),
                              hi_price=draw(st.sampled_from([14.0, 8.0, 6.0])))
    if draw(st.booleans()):
        order = draw(st.permutations(list(range(len(assets)))))
        assets = [assets[i] for i in order]
    ints = draw(st.integers(0, 2)) == 0
    if ints:
        # whole-number capacities and prices, written as integers (a documented way to write an order book)
        for a in assets:
            if a["type"] == "orderbook":
                for o in a["orders"]:
                    o[2] = float(round(o[2])) if abs(o[2]) >= 0.5 else (0.0 if o[2] == 0 else (1.0 if o[2] > 0 else -1.0))
                    o[3] = float(round(o[3]))
    return {"grid": g, "prices": cx.prices, "assets": assets, "ints": ints}


def strategy(tier):
    return _strategy()


def check(spec):
    out = Outcome()
    g = spec["grid"]
    T = g["T"]
    dt = tl.dt(g)
    r = obs.Run(spec)
    if is_err(r.op):
        return out.fail("set-up of a portfolio with an order book raised " + r.op.short())
    res = r.optimize()
    if is_err(res):
        return out.drop("optimize_error:" + res.kind)
    out.label(obs.status_label(res))
    ref, st_ref, v_ref = c02.compare(out, spec, r, res)
    books = [a for a in spec["assets"] if a["type"] == "orderbook"]
    full = any(a["full_exec"] for a in books)
    out.label("full_exec" if full else "partial_exec")
    if isinstance(res, str) or out.discard or st_ref != "optimal":
        return out
    o = r.output()
    if is_err(o):
        return out.fail("extract_output raised " + o.short())
    sp_tab = o["special"]
    disp = o["dispatch"]
    executed = rejected = 0
    tol = 1e-5
    for a in books:
        disc = tl.discount(g, a.get("wacc", 0.0))
        rows = sp_tab[sp_tab["asset"] == a["name"]]
        frac = {}
        for _, rw in rows.iterrows():
            try:
                k = int(rw["name"])
            except Exception:
                continue
            frac[k] = (float(rw["value"]), float(rw["costs"]))
        exp_disp = np.zeros(T)
        for k, (s, e, capa, price) in enumerate(a["orders"]):
            K = [t for t in range(T) if s <= t < e]
            if not K:
                out.label("order_outside_horizon")
                continue
            if k not in frac:
                out.fail("order %d of %s is missing in the special output" % (k, a["name"]))
                continue
            f, cost = frac[k]
            if f < -tol or f > 1 + tol:
                out.fail("order %d of %s executed at fraction %g outside [0,1]" % (k, a["name"], f))
            if a["full_exec"] and min(abs(f), abs(f - 1)) > tol:
                out.fail("order %d of %s executed at fraction %g although full execution is enforced" % (k, a["name"], f))
            if f > 0.01:
                executed += 1
            if f < 0.99:
                rejected += 1
            for t in K:
                exp_disp[t] += f * capa * dt[t]
            exp_cost = f * capa * price * float((dt[K] * disc[K]).sum())
            if abs(cost - exp_cost) > 1e-6 * (1 + abs(exp_cost)):
                out.fail("order %d of %s: reported cost %.9g, expected frac*capa*price*sum(dt*disc) = %.9g"
                         % (k, a["name"], cost, exp_cost))
        col = build.disp_col(spec, a["name"], a["nodes"][0])
        if col not in disp.columns:
            out.fail("no dispatch column " + col)
        else:
            got = disp[col].values.astype(float)
            if np.abs(got - exp_disp).max(initial=0) > 1e-6 * (1 + np.abs(exp_disp).max(initial=0)):
                out.fail("%s: dispatch %s != sum of frac*capa*dt over covering orders %s" % (a["name"], got, exp_disp))
    # metamorphic: orders without in-horizon step are inert
    has_out = any(not [t for t in range(T) if s <= t < e] for a in books for (s, e, _, _) in a["orders"])
    if has_out:
        spec2 = copy.deepcopy(spec)
        for a in spec2["assets"]:
            if a["type"] == "orderbook":
                a["orders"] = [o_ for o_ in a["orders"] if [t for t in range(T) if o_[0] <= t < o_[1]]]
        spec2["assets"] = [a for a in spec2["assets"] if a["type"] != "orderbook" or a["orders"]]
        if spec2["assets"]:
            r2 = obs.Run(spec2)
            if is_err(r2.op):
                out.label("reduced_setup_error")
            else:
                res2 = r2.optimize()
                if not is_err(res2) and not isinstance(res2, str):
                    if abs(float(res2.value) - float(res.value)) > core.tol_val(v_ref, full) * 2:
                        out.fail("removing the orders outside the horizon changes the optimum %.9g -> %.9g"
                                 % (float(res.value), float(res2.value)))
    out.nontrivial = executed >= 1 and rejected >= 1
    return out
