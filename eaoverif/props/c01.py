"""C01  Nodal balance: reported flows at every node and time step net to zero."""
import numpy as np
from hypothesis import strategies as st

from .. import core, gen, build, obs, lpkit
from .. import timeline as tl
from ..core import Outcome, is_err

ID = "C01"
LEVEL = "exploration"
EXAMPLES = {"quick": 1600, "thorough": 24000}
RULE = ("Generated: portfolios of 1-5 assets (+ a buy/sell market pair per node in ~90%) over 1-3 nodes drawn from "
        "simple/contract(takes)/transport(efficiency)/extended transport/storage(1-2 nodes)/multi-commodity/"
        "order book/scaled/structured(internal nodes)/Plant and CHP with fuel node/coarse-frequency and periodic "
        "variants/MIP storages; grids 2-12 steps x freq x main unit x zone incl. DST dates; solved monolithically or "
        "split (interval size drawn). Oracle: for every node and grid step the documented dispatch columns "
        "('<asset>' or '<asset> (<node>)') of extract_output sum to zero; every (asset,node) pair has its column and "
        "the table index is the original grid. Non-trivial: optimal, >= 2 assets with non-zero dispatch at some "
        "node-step and (a variable with several mapping rows, or a split or structured build). "
        "Distinct = distinct spec hash.")
RULE += (' Dedicated shapes (1 in 12 each): a node whose assets all begin later (absent from the first split intervals); a split into intervals that all look alike while the fuel factors of a Plant/CHP (efficiency, running / start consumption as interval data) change over time; two nodes that see exactly the same variables (multi-commodity contract + transport between them, everything else ended).')
ASSUMPTIONS = ["set-up errors of special variants (owned by C13/C08) are discarded and counted, infeasible cases make no claim",
               "tolerance 1e-6*(1+largest bound) on the nodal sums (interior-point / HiGHS output)"]

SPLITS = ["6h", "7h", "12h", "d", "2d"]
# weighted towards assets whose variables own several mapping rows
CLASSES = gen.CLASSES_ALL + ["chp", "chp", "plant", "multi", "transport", "transport", "coarse", "structured"]


@st.composite
def _strategy(draw):
    shape = draw(st.integers(0, 11))
    if shape == 0:
        # names of which one is a prefix of the other, on a grid with two-digit step numbers
        spec = draw(gen.portfolios_all(classes=CLASSES, min_T=11, max_T=14, max_nodes=3, with_markets=1.0))
        spec["split"] = draw(st.one_of(st.none(), st.none(), st.sampled_from(SPLITS)))
        gen.rename_nodes(draw, spec, collide=True)
        return spec
    if shape == 3:
        # split build whose intervals all look alike (same length, no windows) while the dispatch factors of a
        # Plant / CHP towards its fuel node change over time (fuel efficiency, running / start consumption as
        # interval data)
        m = draw(st.sampled_from([3, 4, 6]))
        k = draw(st.integers(2, 3))
        T = m * k
        g = {"start": draw(st.sampled_from(["2021-01-30 00:00", "2021-06-15 00:00"])), "T": T, "freq": "h", "mtu": "h",
             "tz": draw(st.sampled_from([None, "UTC"]))}
        chp = draw(st.booleans())
        def series(vals):
            return {"iv": [[-50 if j == 0 else j * m, (j + 1) * m if j < k - 1 else T + 50, v] for j, v in enumerate(vals)]}
        effs = draw(st.lists(st.sampled_from([1.0, 0.5, 0.75, 0.25]), min_size=k, max_size=k))
        u = {"type": "chp" if chp else "plant", "name": "unit", "nodes": ["np", "nh", "nf"] if chp else ["np", "nf"],
             "price": None, "min_cap": 1.0, "max_cap": 4.0, "extra_costs": 0.0, "wacc": 0.0,
             "start_costs": draw(st.sampled_from([0.0, 1.0])), "running_costs": 0.0,
             "fuel_efficiency": series(effs) if len(set(effs)) > 1 else effs[0],
             "consumption_if_on": draw(st.sampled_from([0.0, 0.25, series([0.25 * (j % 2) for j in range(k)])])),
             "start_fuel": draw(st.sampled_from([0.0, 1.0, series([1.0 * ((j + 1) % 2) for j in range(k)])]))}
        if chp:
            u["conversion_factor_power_heat"] = 0.5
            u["max_share_heat"] = 1.0
        prices = {"ppow": draw(gen.price_series(T)), "pheat": draw(gen.price_series(T)), "pfuel": [draw(st.sampled_from([0.5, 1.0, 2.0]))] * T, "phi": [20.0] * T}
        assets = [u,
                  {"type": "simple", "name": "sell_p", "nodes": ["np"], "price": "ppow", "min_cap": -32.0, "max_cap": 0.0, "extra_costs": 0.0, "wacc": 0.0},
                  {"type": "simple", "name": "buy_p", "nodes": ["np"], "price": "phi", "min_cap": 0.0, "max_cap": 32.0, "extra_costs": 0.0, "wacc": 0.0},
                  {"type": "simple", "name": "buy_f", "nodes": ["nf"], "price": "pfuel", "min_cap": 0.0, "max_cap": 64.0, "extra_costs": 0.0, "wacc": 0.0}]
        if chp:
            assets.append({"type": "simple", "name": "sell_h", "nodes": ["nh"], "price": "pheat", "min_cap": -32.0, "max_cap": 0.0, "extra_costs": 0.0, "wacc": 0.0})
        return {"grid": g, "prices": prices, "assets": assets, "split": "%dh" % m}
    spec = draw(gen.portfolios_all(classes=CLASSES, max_T=draw(st.sampled_from([8, 12, 14]))))
    spec["split"] = draw(st.one_of(st.none(), st.none(), st.sampled_from(SPLITS)))
    if shape == 1:
        # split build with an order book as the last asset whose orders lie in single, different intervals
        cx = gen.Cx(spec["grid"], build.all_nodes(spec)[:1], spec["prices"])
        ob = gen.a_orderbook(draw, cx, "zz_book", n_max=4)
        T = spec["grid"]["T"]
        for o in ob["orders"]:
            t0 = draw(st.integers(0, T - 1))
            o[0], o[1] = t0, t0 + 1
        spec["assets"].append(ob)
        spec["split"] = draw(st.sampled_from(SPLITS))
    if shape == 2 and spec["grid"]["T"] >= 4:
        # a node that comes to life only later: everything attached to it starts at step k, the first interval(s)
        # of a split build do not know the node at all
        T = spec["grid"]["T"]
        k = draw(st.integers(2, T - 1))
        n0 = build.all_nodes(spec)[0]
        cq = 8.0 / float(tl.dt(spec["grid"])[0])
        spec["prices"]["p_late_b"] = [draw(st.sampled_from([1.0, 2.0, 6.0]))] * T
        spec["prices"]["p_late_s"] = draw(gen.price_series(T))
        spec["assets"] += [
            {"type": "transport", "name": "to_late", "nodes": [n0, "n_late"], "min_cap": 0.0, "max_cap": cq,
             "efficiency": draw(st.sampled_from([1.0, 0.5, 0.75])), "costs_const": 0.0, "wacc": 0.0, "start": k, "end": None},
            {"type": "simple", "name": "late_sell", "nodes": ["n_late"], "price": "p_late_s", "min_cap": -cq, "max_cap": 0.0,
             "extra_costs": 0.0, "wacc": 0.0, "start": k, "end": None},
            {"type": "simple", "name": "late_buy", "nodes": ["n_late"], "price": "p_late_b", "min_cap": 0.0,
             "max_cap": draw(st.sampled_from([0.0, 1.0])) / float(tl.dt(spec["grid"])[0]),
             "extra_costs": 0.0, "wacc": 0.0, "start": draw(st.integers(k, T - 1)), "end": None}]
        spec["split"] = draw(st.sampled_from(SPLITS + [None]))
    if shape == 4:
        # two nodes that see exactly the same variables in some steps, with factors that are not proportional: a
        # multi-commodity contract and a transport between the same two nodes, everything else there has ended
        T = spec["grid"]["T"]
        dt0 = float(tl.dt(spec["grid"])[0])
        k = draw(st.integers(0, T - 1))
        spec["prices"]["p_mc"] = [-draw(st.sampled_from([1.0, 4.0]))] * T      # the contract pays for being used
        spec["prices"]["p_mk"] = draw(gen.price_series(T))
        fa, fb = draw(st.sampled_from([(1.0, 0.5), (1.0, -0.5), (2.0, 1.0), (1.0, 1.0)]))
        ends = ["nA", "nB"] if draw(st.booleans()) else ["nB", "nA"]
        spec["assets"] += [
            {"type": "multi", "name": "mc", "nodes": ["nA", "nB"], "factors": [fa, fb], "price": "p_mc", "min_cap": 0.0,
             "max_cap": 8.0 / dt0, "extra_costs": 0.0, "wacc": 0.0, "min_take": None, "max_take": None},
            {"type": "transport", "name": "tr_ab", "nodes": ends, "min_cap": 0.0, "max_cap": 16.0 / dt0,
             "efficiency": draw(st.sampled_from([1.0, 0.5, 0.75])), "costs_const": 0.0, "wacc": 0.0},
            {"type": "simple", "name": "mk_a", "nodes": ["nA"], "price": "p_mk", "min_cap": -16.0 / dt0, "max_cap": 16.0 / dt0,
             "extra_costs": 0.0, "wacc": 0.0, "start": 0, "end": k},
            {"type": "simple", "name": "mk_b", "nodes": ["nB"], "price": "p_mk", "min_cap": -16.0 / dt0, "max_cap": 16.0 / dt0,
             "extra_costs": 0.25, "wacc": 0.0, "start": 0, "end": draw(st.integers(0, k))}]
    if draw(st.integers(0, 9)) < 3:
        gen.rename_nodes(draw, spec)
    return spec


def strategy(tier):
    return _strategy()


def balance_violations(spec, disp, scale, grid_points):
    """list of messages; disp = dispatch table"""
    msgs = []
    tol = core.tol_feas(scale)
    nodes = build.all_nodes(spec)
    for a in spec["assets"]:
        for (an, n) in build.asset_node_pairs(a):
            col = build.disp_col(spec, an, n)
            if col not in disp.columns:
                msgs.append("dispatch table has no column '%s'" % col)
    if msgs:
        return msgs
    if len(disp.index) != len(grid_points) or not all(disp.index == grid_points):
        return ["dispatch table index is not the original grid"]
    for n in nodes:
        cols = [build.disp_col(spec, an, nn) for a in spec["assets"] for (an, nn) in build.asset_node_pairs(a) if nn == n]
        cols = list(dict.fromkeys(cols))
        s = disp[cols].sum(axis=1).values.astype(float)
        i = int(np.argmax(np.abs(s)))
        if abs(s[i]) > tol:
            msgs.append("node %s step %d: dispatches sum to %g (tolerance %g): %s"
                        % (n, i, s[i], tol, {c: float(disp[c].values[i]) for c in cols}))
    return msgs


def check(spec):
    out = Outcome()
    split = spec.get("split")
    r = obs.Run(spec, split=split)
    cls = obs.classes_of(spec)
    out.label(*["class:" + c for c in set(cls)])
    out.label("build:split" if split else "build:monolithic", "nodes:%d" % len(build.all_nodes(spec)))
    if is_err(r.op):
        return out.drop("setup_error:" + r.op.kind)
    res = r.optimize()
    if is_err(res):
        return out.drop("optimize_error:" + res.kind)
    out.label(obs.status_label(res))
    if isinstance(res, str):
        return out.drop("no_solution")
    o = r.output()
    if is_err(o):
        return out.fail("extract_output raised " + o.short())
    disp = o["dispatch"]
    if split:
        scale = max(lpkit.from_op(p).scale() for p in r.op.ops)
        multi = any(p.mapping.index.duplicated().any() for p in r.op.ops)
    else:
        scale = lpkit.from_op(r.op).scale()
        multi = bool(r.op.mapping.index.duplicated().any())
    for m in balance_violations(spec, disp, scale, r.grid.timepoints):
        out.fail(m)
    tol = core.tol_feas(scale)
    active = int(sum((np.abs(disp[c].values.astype(float)) > 10 * tol).any() for c in disp.columns))
    out.label("multi_row_variables" if multi else "single_row_variables")
    out.nontrivial = active >= 2 and (multi or bool(split) or any(a["type"] == "structured" for a in spec["assets"]))
    return out
