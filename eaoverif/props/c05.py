"""C05  Storage physics: level within [0,size], ends at end level, reported truly."""
import numpy as np
import scipy.sparse as sp
from hypothesis import strategies as st

from .. import core, gen, build, obs, lpkit
from .. import timeline as tl
from ..core import Outcome, is_err

ID = "C05"
LEVEL = "exploration"
EXAMPLES = {"quick": 1200, "thorough": 24000}
RULE = ("Generated: 1-2 storages (size, charge/discharge rates, charging efficiency, start/end level, inflow, in/out/"
        "holding costs, price, one or two nodes, window inside/straddling the horizon, time blocks of 2..T/2+1 steps, "
        "no-simultaneous option, maximum holding duration at k+1/2 steps with start level 0 and no inflow) inside a "
        "portfolio with a market pair per node and optionally contracts / a transport; prices may be negative for "
        "MIP storages; grids 2-12 steps x freq x unit x zone. Oracle written from the statement on Results.x through "
        "the storage's mapping rows: charge g, discharge h, L_t = start + sum(eff*g - h + inflow*dt) over the active "
        "steps (restarted at every block), -tol <= L <= size+tol, L = end level at the last active step (of every "
        "block), g <= cap_in*dt, h <= cap_out*dt, reported <name>_fill_level = L, <name>_charge = g, "
        "<name>_discharge = -h, min(g,h) = 0 with the no-simultaneous option, runs of L > tol no longer than the "
        "maximum holding duration. Storages with an own coarser frequency or periodicity (2 of 9 variants; start level = end level "
        "and no inflow for periodic ones): the flows per grid step are the variables' shares (disp_factor); physical level, end level "
        "and the reported series are examined in the same way. (holding, 1 of 4 cases) a storage with a maximum holding duration alone on a grid with "
        "unequal steps (daily steps across a DST switch, calendar months; some uniform), duration strictly between two "
        "attainable run lengths: every one of the 2^T patterns of 'level non-zero at the end of step t' is pinned in "
        "EAO's problem (plus level >= 1 where non-empty) and must be feasible iff each run of non-empty steps lasts "
        "<= the duration (scipy-HiGHS). Non-trivial: the storage moves volume and one of {inflow, efficiency < 1, "
        "start != end, two nodes, blocks, MIP option}; (holding) all 2^T patterns decided on a grid with unequal steps. "
        "Distinct = distinct spec hash.")
RULE += (' Variant coarse_mip: storage with an own coarser frequency and the no-simultaneous option under mostly negative prices.')
RULE += (' Round 5: whole-number size / start level written as integers next to a fractional end level.')
ASSUMPTIONS = ["coarse frequency / periodicity: only the level clauses (physical level in [0,size], end level, reported = physical) - the "
               "formulation itself is C13's; a periodic storage on a horizon that ends inside a period has no end-level claim",
               "maximum holding duration: the time held is the sum of the lengths of consecutive steps with a non-zero level at their end "
               "(EAO's discretisation); both directions are demanded - never longer (statement) and every run up to the duration admitted (documented meaning of the parameter)",
               "reported level compared on the storage's active steps; with blocks only when start level = end level "
               "(otherwise the level jumps at block boundaries by construction)",
               "tolerance 1e-6*(1+largest bound) (x10 for MIP)"]


@st.composite
def _strategy(draw):
    g = draw(gen.grids(min_T=2, max_T=12))
    nn = draw(st.integers(1, 3))
    nodes = ["n%d" % i for i in range(nn)]
    variant = draw(st.sampled_from(["plain", "plain", "plain", "blocks", "blocks", "mip", "mip", "coarse", "periodic", "coarse_mip"]))
    if variant in ("coarse", "periodic", "coarse_mip") and not tl.uniform(g):
        variant = "plain"
    neg = variant in ("mip", "coarse_mip")     # negative prices only where simultaneous charge / discharge is excluded by option
    prices = {"p0": draw(gen.price_series(g["T"], positive=not neg)),
              "p1": draw(gen.price_series(g["T"]))}
    cx = gen.Cx(g, nodes, prices)
    assets = []
    excluded = 0
    for i in range(draw(st.sampled_from([1, 1, 2]))):
        a = gen.a_storage(draw, cx, "s%d" % i, mip=(variant == "mip"), blocks=(variant == "blocks"))
        if variant == "blocks" and draw(st.booleans()):
            a["end_level"] = a["start_level"]
        if variant == "mip" and draw(st.integers(0, 3)) == 0:
            # the option on a loss-free storage (no efficiency loss, no costs), where possible between two nodes
            a.update(no_simult=True, eff_in=1.0, cost_in=0.0, cost_out=0.0)
            if nn >= 2:
                a["nodes"] = list(draw(st.permutations(nodes))[:2])
        if variant == "coarse_mip":
            # no-simultaneous option on a storage with an own coarser frequency (boolean variables per coarse step)
            a.update(no_simult=True, eff_in=draw(st.sampled_from([0.5, 0.75, 1.0])))
            if draw(st.booleans()):
                a["cap_in"] = a["cap_out"] * 2.0
        if variant in ("coarse", "periodic", "coarse_mip"):
            # the storage's own coarser frequency / periodicity: several grid steps per variable.  Only what the
            # statement says about the physical and the reported level is examined here (the formulation is C13's)
            a["start"] = a["end"] = None
            a["cost_store"] = 0.0
            a["nodes"] = a["nodes"][:1]
            if variant in ("coarse", "coarse_mip"):
                gen.coarsen(draw, cx, a)
            else:
                gen.periodize(draw, cx, a)
                a["end_level"] = a["start_level"]
                a["inflow"] = 0.0
        if a.get("block") and d7_class(a, g["T"]):
            # known finding D7 (not repaired: a pinned regression value of the suite depends on it):
            # excluded by construction - choose another block size or give up blocks
            excluded += 1
            for b in range(2, g["T"] + 2):
                a["block"] = b
                if not d7_class(a, g["T"]):
                    break
            else:
                a["block"] = None
        assets.append(a)
    for i in range(draw(st.integers(0, 2))):
        cls = draw(st.sampled_from(["simple", "simple", "transport", "contract"]))
        assets.append(gen.draw_asset(draw, cx, cls, "c%d" % i))
    # one market pair per node with its own time-varying price level (spatial and temporal spreads;
    # negative prices only for MIP storages, where simultaneous charge/discharge is excluded by option)
    mk = gen.markets(cx, cap_q=16.0)
    spread = draw(st.sampled_from([0.0, 0.5, 1.0]))
    for i, n in enumerate(nodes):
        base = draw(gen.price_series(g["T"], positive=not neg))
        if variant == "coarse_mip":
            # mostly negative prices: burning energy in the charging loss pays, which the option has to prevent
            base = draw(st.lists(gen.dyadic(-4, 2), min_size=g["T"], max_size=g["T"]))
        cx.prices["pm_hi%d" % i] = [v + spread for v in base]
        cx.prices["pm_lo%d" % i] = [v if neg else max(0.0, v) for v in base]
        mk[2 * i]["price"] = "pm_hi%d" % i
        mk[2 * i + 1]["price"] = "pm_lo%d" % i
    assets += mk
    ints = draw(st.integers(0, 3)) == 0
    if ints and draw(st.booleans()):
        # whole-number size and start level written as integers next to a fractional end level
        for a in assets:
            if a["type"] == "storage" and not a.get("block") and not a.get("freq") and not a.get("periodicity") \
                    and a.get("max_store_duration") is None:      # (holding time: start level 0 only, see ASSUMPTIONS)
                a["size"] = float(max(2, round(a["size"])))
                a["start_level"] = float(draw(st.integers(0, int(a["size"]) - 1)))
                a["end_level"] = min(a["size"], a["start_level"] + draw(st.sampled_from([0.5, 0.25, 1.5, -0.5])))
                a["end_level"] = max(0.0, a["end_level"])
                if draw(st.booleans()):
                    a["inflow"] = 0.0
    return {"grid": g, "prices": cx.prices, "assets": assets, "variant": variant, "excluded_known": excluded, "ints": ints}


def d7_class(a, T):
    """input class of known finding D7: a block boundary at or after the end of the storage's last
    active step (window = whole number of blocks, or storage end beyond the horizon)"""
    blk = a.get("block")
    if not blk:
        return False
    s, e = a.get("start"), a.get("end")
    act = list(range(0 if s is None else max(0, s), T if e is None else min(T, e)))
    if not act:
        return False
    first = act[0] if (s is None or s >= 0) else s
    stop = T if e is None else e            # end of the storage's window (EAO draws boundaries up to it)
    last_end = act[-1] + 1
    k = first
    while k <= stop:
        if k >= last_end:
            return True
        k += blk
    return False


@st.composite
def _holding(draw):
    """a storage with a maximum holding duration on a grid whose steps may differ in length; the duration sits
    strictly between two attainable run lengths (where windows at different positions differ in step count)"""
    kind = draw(st.sampled_from(["dst_day", "dst_day", "month", "uniform"]))
    if kind == "month":
        g = {"start": draw(st.sampled_from(["2021-01-01 00:00", "2020-02-01 00:00", "2021-06-01 00:00"])),
             "T": draw(st.integers(3, 6)), "freq": "MS", "mtu": draw(st.sampled_from(["h", "d"])),
             "tz": draw(st.sampled_from([None, "CET"]))}
    elif kind == "dst_day":
        date, tz = draw(st.sampled_from([("2021-03-26", "CET"), ("2021-03-27", "CET"), ("2021-10-29", "CET"),
                                         ("2021-03-12", "America/New_York"), ("2021-11-05", "America/New_York")]))
        g = {"start": date + " 00:00", "T": draw(st.integers(3, 6)), "freq": "d",
             "mtu": draw(st.sampled_from(["h", "d", "min"])), "tz": tz}
    else:
        g = draw(gen.grids(min_T=3, max_T=6))
    dt = tl.dt(g)
    T = g["T"]
    # attainable run lengths = sums of consecutive steps; the duration lies strictly between two neighbouring ones
    # (or above the longest), so every threshold at which windows of different position differ is hit, never a tie
    sums = sorted({round(float(dt[i:j + 1].sum()), 9) for i in range(T) for j in range(i, T)})
    k = draw(st.integers(0, len(sums) - 1))
    D = (sums[k] + sums[k + 1]) / 2 if k + 1 < len(sums) else sums[k] * 1.25
    a = {"type": "storage", "name": "s0", "nodes": ["n0"], "size": 8.0, "cap_in": 8.0 / float(dt.min()),
         "cap_out": 8.0 / float(dt.min()), "start_level": 0.0, "end_level": 0.0, "eff_in": 1.0, "inflow": 0.0,
         "cost_in": 0.0, "cost_out": 0.0, "cost_store": 0.0, "price": None, "wacc": 0.0, "start": None, "end": None,
         "max_store_duration": D}
    return {"kind": "holding", "grid": g, "prices": {"p0": [1.0] * T}, "assets": [a]}


def strategy(tier):
    return st.one_of(_strategy(), _strategy(), _strategy(), _holding())


def check_holding(spec, out):
    """all 2^T patterns of 'level may be non-zero at the end of step t': pinned in EAO's problem, feasible iff
    every run of consecutive non-empty steps lasts no longer than the maximum holding duration"""
    import itertools
    g = spec["grid"]
    a = spec["assets"][0]
    T = g["T"]
    dt = tl.dt(g)
    D = a["max_store_duration"]
    out.label("holding_patterns", "steps:" + ("unequal" if len(set(np.round(dt, 9))) > 1 else "equal"))
    assets, _ = build.build_assets(spec)
    op = core.eao_call(assets[0].setup_optim_problem, build.build_prices(spec), build.build_grid(g))
    if is_err(op):
        return out.fail("set-up of a storage with max_store_duration raised " + op.short())
    mp = op.mapping
    mb = mp[mp["var_name"] == "bool_2"]
    mb = mb[~mb.index.duplicated(keep="first")]
    if len(mb) != T:
        return out.fail("expected one 'level non-zero' indicator per step, mapping has %d" % len(mb))
    idx = np.zeros(T, int)
    idx[mb["time_step"].values.astype(int)] = mb.index.values.astype(int)
    raw0 = lpkit.from_op(op)
    md = mp[mp["type"] == "d"]
    md = md[~md.index.duplicated(keep="first")]
    decided = 0
    for pat in itertools.product([0, 1], repeat=T):
        run, longest = 0.0, 0.0
        for t in range(T):
            run = run + dt[t] if pat[t] else 0.0
            longest = max(longest, run)
        expect = longest <= D
        raw = raw0.copy()
        raw.l[idx] = np.array(pat, float)
        raw.u[idx] = np.array(pat, float)
        if expect and sum(pat[:-1]):
            # the pattern must also be usable: a level of at least 1 at the end of every non-empty step.
            # (efficiency 1, no inflow, start level 0: level_t = -(sum of the storage's dispatch up to t))
            # (not for the last step, where the level is the end level 0)
            rows = np.zeros((sum(pat[:-1]), raw.n))
            k = 0
            for t in range(T - 1):
                if pat[t]:
                    for v, tau in zip(md.index.values.astype(int), md["time_step"].values.astype(int)):
                        if tau <= t:
                            rows[k, v] = 1.0
                    k += 1
            raw.add_rows(sp.csr_matrix(rows), -np.ones(rows.shape[0]), "U" * rows.shape[0])
        feas = lpkit.feasible(raw)
        if feas is None:
            continue
        decided += 1
        if feas != expect:
            out.fail("steps %s, maximum holding duration %g: pattern %s of non-empty steps (longest run %g) is %s by EAO"
                     % (list(np.round(dt, 6)), D, list(pat), longest, "admitted" if feas else "excluded"))
            break
    out.nontrivial = decided == 2 ** T and len(set(np.round(dt, 9))) > 1
    if decided == 2 ** T and len(set(np.round(dt, 9))) == 1:
        out.label("equal_steps_complete")


def flows(op, x, a, T):
    """charge g and discharge h per grid step from the storage's variables"""
    mp = op.mapping
    m = mp[(mp["asset"] == a["name"]) & (mp["type"] == "d")]
    multi = bool(a.get("freq") or a.get("periodicity"))
    if not multi:
        m = m[~m.index.duplicated(keep="first")]
    fac = m["disp_factor"].fillna(1.0).values if (multi and "disp_factor" in m.columns) else np.ones(len(m))
    g = np.zeros(T)
    h = np.zeros(T)
    steps = set()
    for i, vn, t, f in zip(m.index.values, m["var_name"].values, m["time_step"].values, fac):
        xi = float(x[int(i)]) * float(f)      # share of a variable over several steps that falls into step t
        t = int(t)
        steps.add(t)
        if vn == "disp":
            g[t] += max(0.0, -xi)
            h[t] += max(0.0, xi)
        elif vn == "disp_in":
            g[t] += -xi
        elif vn == "disp_out":
            h[t] += xi
    return g, h, sorted(steps)


def check(spec):
    out = Outcome()
    if spec.get("kind") == "holding":
        check_holding(spec, out)
        return out
    g_ = spec["grid"]
    T = g_["T"]
    dt = tl.dt(g_)
    out.label("variant:" + spec.get("variant", "?"))
    if spec.get("excluded_known"):
        out.label("excluded_known:D7")
    r = obs.Run(spec)
    if is_err(r.op):
        return out.drop("setup_error:" + r.op.kind)
    res = r.optimize()
    if is_err(res):
        return out.drop("optimize_error:" + res.kind)
    out.label(obs.status_label(res))
    if isinstance(res, str):
        return out.drop("no_solution")
    mip = r.is_mip
    x = np.asarray(res.x, float)
    scale = lpkit.from_op(r.op).scale()
    tol = core.tol_feas(scale) * (10 if mip else 1)
    o = r.output()
    if is_err(o):
        return out.fail("extract_output raised " + o.short())
    iv = o["internal_variables"]
    for a in spec["assets"]:
        if a["type"] != "storage":
            continue
        name = a["name"]
        s, e = a.get("start"), a.get("end")
        act = list(range(0 if s is None else max(0, s), T if e is None else min(T, e)))
        g, h, steps = flows(r.op, x, a, T)
        multi = bool(a.get("freq") or a.get("periodicity"))
        if multi:
            act = steps          # a trailing remainder shorter than a coarse step has no variable
        if steps != act:
            out.fail("%s: dispatch variables on steps %s, active window is %s" % (name, steps, act))
            continue
        if not act:
            out.label("storage_inactive")
            continue
        size, eff = a["size"], a.get("eff_in", 1.0)
        start, end = a.get("start_level", 0.0), a.get("end_level", 0.0)
        infl = a.get("inflow", 0.0)
        if (g < -tol).any() or (h < -tol).any():
            out.fail("%s: negative charge or discharge" % name)
        for t in act:
            if g[t] > a["cap_in"] * dt[t] + tol:
                out.fail("%s step %d: charge %g above rate x step length %g" % (name, t, g[t], a["cap_in"] * dt[t]))
            if h[t] > a["cap_out"] * dt[t] + tol:
                out.fail("%s step %d: discharge %g above rate x step length %g" % (name, t, h[t], a["cap_out"] * dt[t]))
        # blocks: boundaries at window start + k*block steps
        blk = a.get("block")
        if blk:
            first = act[0] if (s is None or s >= 0) else s     # blocks are anchored at the asset start
            bounds = sorted(set([act[0]] + [t for t in act if (t - first) % blk == 0]))
        else:
            bounds = [act[0]]
        L = np.full(T, np.nan)
        lev = start
        for t in act:
            if t in bounds:
                lev = start
            lev = lev + eff * g[t] - h[t] + infl * dt[t]
            L[t] = lev
            last_of_block = (t == act[-1]) or ((t + 1) in bounds)
            if multi and a.get("periodicity") and len(act) % a["_p"] != 0:
                last_of_block = False       # the horizon ends inside a period
            if lev < -tol or lev > size + tol:
                out.fail("%s step %d: physical fill level %g outside [0,%g]" % (name, t, lev, size))
                break
            if last_of_block and abs(lev - end) > tol:
                out.fail("%s step %d (last step%s): fill level %g != end level %g"
                         % (name, t, " of a block" if blk else "", lev, end))
                break
        if out.violations:
            continue
        # reported series
        compare_level = (not blk) or start == end
        col = name + "_fill_level"
        if col not in iv.columns:
            out.fail("no column %s in internal_variables" % col)
        elif compare_level:
            rep = iv[col].values.astype(float)
            d = np.abs(rep[act] - L[act])
            if d.max() > 10 * tol:
                t = act[int(np.argmax(d))]
                out.fail("%s step %d: reported fill level %g, physical level %g" % (name, t, rep[t], L[t]))
        for what, exp in (("charge", g), ("discharge", -h)):
            col = "%s_%s" % (name, what)
            if col not in iv.columns:
                out.fail("no column %s in internal_variables" % col)
                continue
            rep = iv[col].values.astype(float)
            d = np.abs(rep - exp)
            if d.max() > 10 * tol:
                t = int(np.argmax(d))
                out.fail("%s step %d: reported %s %g, from the solution %g" % (name, t, what, rep[t], exp[t]))
        if a.get("no_simult"):
            both = np.minimum(g, h)
            if both.max() > 10 * tol:
                out.fail("%s step %d: charge %g and discharge %g in the same step with no_simult_in_out"
                         % (name, int(np.argmax(both)), g[int(np.argmax(both))], h[int(np.argmax(both))]))
        D = a.get("max_store_duration")
        if D is not None:
            run = 0.0
            ltol = 1e-4 * (1 + size)
            for t in act:
                if L[t] > ltol:
                    run += dt[t]
                    if run > D + 1e-9:
                        out.fail("%s: fill level non-zero for %g > maximum holding duration %g (steps up to %d)"
                                 % (name, run, D, t))
                        break
                else:
                    run = 0.0
        moved = (g.sum() + h.sum()) > 100 * tol
        feats = [k for k, v in (("inflow", infl), ("eff", eff != 1.0), ("start!=end", start != end),
                                ("two_nodes", len(a["nodes"]) == 2), ("blocks", bool(blk)),
                                ("no_simult", a.get("no_simult")), ("max_duration", D is not None),
                                ("window", s is not None or e is not None)) if v]
        out.label(*["feature:" + f for f in feats])
        out.label("moved" if moved else "idle")
        if moved and set(feats) - {"window"}:
            out.nontrivial = True
    return out
