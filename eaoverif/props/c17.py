"""C17  Stochastic and robust problems respect their defining bounds."""
import copy

import numpy as np
from hypothesis import strategies as st

from eaopack.stoch_lin_prog import make_slp

from .. import core, gen, build, obs, lpkit
from .. import timeline as tl
from ..core import Outcome, is_err, eao_call

ID = "C17"
LEVEL = "exploration"
EXAMPLES = {"quick": 1000, "thorough": 20000}
RULE = ("Generated: LP portfolios (contracts with spread / takes / time-varying capacity, storages with efficiency, "
        "inflow and costs (a quarter at a coarser asset frequency), transports in both directions with costs, multi-commodity contracts, order books "
        "(orders inside, outside and across the horizon, half of them with orders reaching from the present into the future), market pairs; 1-2 nodes; 3-10 steps x freq x unit x "
        "zone; wacc), 1-3 price samples that share the present prices with the original prices and differ in the "
        "future (or, in 15%, coincide with them), present/future boundary at any inner step. Oracle SLP: (i) n = "
        "n_present + (S+1) n_future and every scenario block (x_present, x_future^s) is feasible for the "
        "deterministic problem; (ii) value = -(c_p.x_p + mean_s c_f^s.x_f^s) with cost vectors recomputed per "
        "scenario by a fresh portfolio; (iii) mean_s V_s >= V_SLP >= EV_k for every scenario k, where V_s are the "
        "per-scenario optima and EV_k pins the present part of an optimal solution of scenario k and averages the "
        "re-optimised scenario values (all by scipy-HiGHS); (iv) identical scenarios => deterministic optimum. "
        "A variable is a future variable iff the first step it acts in is. Robust target (scenario set with or without the set-up prices, down to one scenario): x feasible, min_s val_s(x_rob) >= min_s val_s(x^k) for every single-scenario solution and "
        "<= min_k V_k. Non-trivial: scenarios differ and EV_k < V_SLP < mean V_s strictly for some k (SLP) / the "
        "robust solution differs in worst-case value from some single-scenario solution. Distinct = distinct spec hash.")
RULE += (" The cost sample of every scenario (costs_only, what robust and stochastic problems are fed with) must equal the cost vector of the problem set up with the scenario's prices; storages with binary variables on grids of up to 5 steps.")
RULE += (' Round 5: scaled assets, periodic storages, an asset without price whose cost per unit is a column of the uncertain data.')
ASSUMPTIONS = ["only Results.x and Results.value of the SLP are used (with several rows per variable make_slp renumbers the mapping by "
               "rows and extract_output fails - observation D19 outside the listed properties)",
               "scipy-HiGHS solves the per-scenario problems; tolerances 4e-5*(1+|V|)"]


@st.composite
def _strategy(draw):
    g = draw(gen.grids(min_T=3, max_T=10))
    T = g["T"]
    nn = draw(st.integers(1, 2))
    nodes = ["n%d" % i for i in range(nn)]
    prices = {"p0": draw(gen.price_series(T)), "p1": draw(gen.price_series(T))}
    cx = gen.Cx(g, nodes, prices)
    assets = []
    for i in range(draw(st.integers(1, 3))):
        cls = draw(st.sampled_from(["simple", "storage", "storage", "contract", "transport", "transport", "multi",
                                    "orderbook", "orderbook", "storage_mip", "scaled", "chp_minload"]))
        if cls == "chp_minload" and (T > 3 or any(x["type"] in ("chp_minload", "chp", "plant") for x in assets)):
            cls = "storage"      # (binary variables only where the reference can enumerate them)
        if i == 0 and draw(st.integers(0, 3)) > 0:
            cls = "storage"      # something that couples present and future in most cases (else the stages decouple)
        if cls == "storage_mip" and (T > 5 or any(x["type"] == "storage" and (x.get("no_simult") or x.get("max_store_duration")) for x in assets)):
            cls = "storage"      # boolean variables only on short grids, one such storage (exact reference by enumeration)
        if cls == "chp_minload":
            a = gen.draw_any(draw, cx, cls, "a%d" % i)
            a.update(min_runtime=0, wacc=0.0)
            for k_ in ("start", "end", "ramp", "time_already_running", "last_dispatch"):
                a.pop(k_, None)
        elif cls == "scaled":
            a = gen.a_scaled(draw, cx, "a%d" % i, base_cls=draw(st.sampled_from(["simple", "storage", "transport"])))
            a["base"]["wacc"] = 0.0
            if a["base"]["type"] == "storage":
                a["base"]["price"] = None
        else:
            a = gen.draw_asset(draw, cx, cls, "a%d" % i)
        if cls == "orderbook":
            a["wacc"] = 0.0
            if draw(st.booleans()):
                # orders that begin in the present and reach into the future (one variable over several steps)
                T_ = g["T"]
                for o in a["orders"][:3]:
                    o[0] = draw(st.integers(0, max(0, T_ - 2)))
                    o[1] = draw(st.integers(min(T_, o[0] + 2), T_))
        if a["type"] in ("transport", "exttransport") and a.get("costs_time_series") is None and draw(st.booleans()):
            a["costs_time_series"] = "p1"
            a["costs_const"] = max(a["costs_const"], 0.25)
        if a["type"] == "storage":
            a["price"] = None
            a["nodes"] = a["nodes"][:1]
            if tl.uniform(g) and draw(st.integers(0, 3)) == 0:
                # coarser asset frequency: one variable over several steps (no price series involved)
                a["start"] = a["end"] = None
                gen.coarsen(draw, cx, a)
            elif tl.uniform(g) and T >= 4 and not a.get("no_simult") and a.get("max_store_duration") is None and draw(st.integers(0, 4)) == 0:
                # periodic storage: one variable for the same position of every period (present and future steps)
                a["start"] = a["end"] = None
                a["end_level"] = a["start_level"]
                a["inflow"] = 0.0
                gen.periodize(draw, cx, a)
        if a.get("min_take") or a.get("max_take"):
            a["start"] = a["end"] = None
        assets.append(a)
    if draw(st.integers(0, 5)) == 0:
        # an asset without price whose cost per unit is a column of the (uncertain) price data
        assets.append({"type": "simple", "name": "xc", "nodes": [nodes[0]], "price": None, "min_cap": -2.0 / cx.dt0, "max_cap": 2.0 / cx.dt0,
                       "extra_costs": {"col": draw(st.sampled_from(["p0", "p1"]))}, "wacc": 0.0, "start": None, "end": None})
    # markets priced by the uncertain series
    cap = 16.0 / cx.dt0
    for i, n in enumerate(nodes):
        assets.append({"type": "simple", "name": "mb%d" % i, "nodes": [n], "price": "p%d" % i, "min_cap": 0.0, "max_cap": cap,
                       "extra_costs": draw(st.sampled_from([0.0, 0.25])), "wacc": 0.0})
        assets.append({"type": "simple", "name": "ms%d" % i, "nodes": [n], "price": "p%d" % i, "min_cap": -cap, "max_cap": 0.0,
                       "extra_costs": draw(st.sampled_from([0.0, 0.25])), "wacc": 0.0})
    k = draw(st.integers(1, T - 1))
    same = draw(st.integers(0, 6)) == 0
    samples = []
    for _ in range(draw(st.integers(1, 3))):
        s = {}
        for name, v in cx.prices.items():
            if name.startswith("p") and not same:
                fut = draw(gen.price_series(T - k))
                s[name] = list(v[:k]) + fut
            else:
                s[name] = list(v)
        samples.append(s)
    return {"grid": g, "prices": cx.prices, "assets": assets, "boundary": k, "samples": samples,
            "target": draw(st.sampled_from(["slp", "slp", "robust"])), "identical": same,
            "robust_with_base": draw(st.booleans())}


def strategy(tier):
    return _strategy()


def cost_vector(spec, prices):
    s2 = dict(spec, prices=prices)
    pf, grid, pr = build.build_all(s2)
    return eao_call(pf.setup_optim_problem, pr, grid, costs_only=True)


def check(spec):
    out = Outcome()
    g = spec["grid"]
    k = spec["boundary"]
    out.label("target:" + spec["target"], "identical" if spec["identical"] else "different", "samples:%d" % len(spec["samples"]))
    r = obs.Run(spec)
    if is_err(r.op):
        return out.drop("setup_error:" + r.op.kind)
    op = r.op
    n = len(op.c)
    if len(set(op.mapping.index)) != n:
        out.label("unmapped_variables")
    out.label("multi_row_variables" if op.mapping.index.duplicated().any() else None)
    raw0 = lpkit.from_op(op)
    scen_prices = [spec["prices"]] + list(spec["samples"])
    cs = []
    for kk_, p in enumerate(scen_prices):
        # the cost vector of scenario k: the problem set up with these prices.  The cost-sample shortcut (costs_only),
        # which is what robust and stochastic problems are fed with, has to give the same vector
        rk = obs.Run(dict(spec, prices=p))
        if is_err(rk.op):
            return out.drop("scenario_setup_error")
        ck = np.asarray(rk.op.c, float)
        c = cost_vector(spec, p)
        if is_err(c):
            return out.fail("cost sample (costs_only) of scenario %d raised %s" % (kk_, c.short()))
        try:
            c = np.asarray(c, float)
        except Exception:
            return out.fail("cost sample (costs_only) of scenario %d contains objects that are not numbers" % kk_)
        if c.shape != ck.shape:
            return out.fail("cost sample (costs_only) of scenario %d has %d entries, the problem has %d variables" % (kk_, len(c), len(ck)))
        if not np.allclose(c, ck, rtol=1e-9, atol=1e-12):
            i_ = int(np.argmax(np.abs(c - ck)))
            return out.fail("cost sample (costs_only) of scenario %d differs from the cost vector of the problem set up with these prices at variable %d: %g vs %g"
                            % (kk_, i_, c[i_], ck[i_]))
        cs.append(ck)
    S1 = len(cs)
    # per-scenario optima
    Vs, xs = [], []
    for c in cs:
        rr = raw0.copy()
        rr.c = c
        st_, x_, v_ = lpkit.solve(rr)
        if st_ != "optimal":
            return out.drop("scenario_" + st_)
        Vs.append(v_)
        xs.append(x_)
    # a variable belongs to the future iff every step it acts in does (an order or a coarse-frequency variable
    # that begins in the present is a present decision)
    first_step = op.mapping["time_step"].astype(int).groupby(level=0).min()
    fut = np.zeros(n, bool)
    fut[first_step.index.values.astype(int)] = first_step.values >= k
    if op.mapping.index.duplicated().any() and (first_step < k).any():
        last_step = op.mapping["time_step"].astype(int).groupby(level=0).max()
        out.label("variable_spans_boundary" if ((first_step < k) & (last_step >= k)).any() else None)
    scale = raw0.scale()
    tf = 20 * core.tol_feas(scale)
    tv = 2 * core.tol_val(np.mean(Vs))
    if spec["target"] == "robust":
        if not spec.get("robust_with_base", True):
            # the scenario set need not contain the prices the problem was set up with (and may be a single scenario)
            cs, Vs, xs = cs[1:], Vs[1:], xs[1:]
            out.label("robust_without_base", "robust_single_scenario" if len(cs) == 1 else None)
        samples_c = [np.asarray(c, float) for c in cs]
        res = eao_call(op.optimize, target="robust", samples=samples_c)
        if is_err(res):
            return out.fail("robust optimisation raised " + res.short())
        if isinstance(res, str):
            if res != "inaccurate":     # scenarios differ in costs only: any feasible point of the deterministic problem is feasible
                return out.fail("robust optimisation reports '%s' although the deterministic problem is feasible" % res)
            return out.drop("robust_inaccurate")
        x = np.asarray(res.x, float)
        worst, where = lpkit.residual(raw0, x)
        if worst > tf:
            out.fail("robust solution violates %s by %g" % (where, worst))
        w_rob = min(float(-c @ x) for c in cs)
        differs = False
        for kk, xk in enumerate(xs):
            wk = min(float(-c @ xk) for c in cs)
            if w_rob < wk - tv:
                out.fail("worst-case value of the robust solution %.9g is below that of the optimal solution of scenario %d: %.9g"
                         % (w_rob, kk, wk))
            if w_rob > wk + 10 * tv:
                differs = True
        if w_rob > min(Vs) + tv:
            out.fail("worst-case value %.9g exceeds the smallest per-scenario optimum %.9g" % (w_rob, min(Vs)))
        if abs(float(res.value) - float(-np.asarray(op.c, float) @ x)) > tv:
            out.fail("robust: reported value %.9g is not the value of the solution under the original prices" % float(res.value))
        out.nontrivial = differs and not spec["identical"]
        return out
    # ------------------------------------------------------------------ SLP
    pf, grid, pr = r.pf, r.grid, r.prices
    start_future = tl.point(g, k)
    samples = [{kk: np.array(v, float) for kk, v in s.items()} for s in spec["samples"]]
    slp = eao_call(make_slp, op, pf, grid, start_future, samples)
    if is_err(slp):
        return out.fail("make_slp raised " + slp.short())
    nf = int(fut.sum())
    N = len(slp.c)
    if N != n + (S1 - 1) * nf:
        out.fail("SLP has %d variables, expected n_present + (S+1) n_future = %d" % (N, (n - nf) + S1 * nf))
        return out
    res = eao_call(slp.optimize)
    if is_err(res):
        return out.fail("optimising the SLP raised " + res.short())
    if isinstance(res, str):
        if res != "inaccurate":
            return out.fail("the SLP is reported '%s' although the deterministic problem is feasible" % res)
        return out.drop("slp_inaccurate")
    x = np.asarray(res.x, float)
    V = float(res.value)
    blocks = []
    for s in range(S1):
        xb = x[:n].copy()
        if s > 0:
            xb[fut] = x[n + (s - 1) * nf: n + s * nf]
        blocks.append(xb)
        worst, where = lpkit.residual(raw0, xb)
        if worst > tf:
            out.fail("scenario block %d of the SLP solution violates the deterministic problem: %s by %g" % (s, where, worst))
            return out
    acc = float(np.mean([-cs[s] @ blocks[s] for s in range(S1)]))
    if abs(acc - V) > tv:
        out.fail("SLP value %.9g is not present value + mean of scenario future values %.9g" % (V, acc))
    ws = float(np.mean(Vs))
    if V > ws + tv:
        out.fail("SLP optimum %.9g exceeds the mean of the per-scenario optima %.9g" % (V, ws))
    strict = False
    for kk, xk in enumerate(xs):
        vals = []
        for s in range(S1):
            rr = raw0.copy()
            rr.c = cs[s]
            rr.l[~fut] = xk[~fut]
            rr.u[~fut] = xk[~fut]
            st_, x_, v_ = lpkit.solve(rr)
            if st_ != "optimal":
                vals = None
                break
            vals.append(v_)
        if vals is None:
            continue
        ev = float(np.mean(vals))
        if V < ev - tv:
            out.fail("SLP optimum %.9g is below the expected value %.9g of fixing the present to scenario %d's solution" % (V, ev, kk))
        if ev < V - 10 * tv and V < ws - 10 * tv:
            strict = True
    if spec["identical"]:
        if abs(V - Vs[0]) > tv:
            out.fail("all scenarios coincide but the SLP optimum %.9g differs from the deterministic optimum %.9g" % (V, Vs[0]))
    out.label("strict" if strict else "not_strict")
    out.nontrivial = strict and not spec["identical"]
    return out
