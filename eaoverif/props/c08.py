"""C08  Only what lies inside the horizon and inside an asset's window matters."""
import copy

import numpy as np
import scipy.sparse as sp
from hypothesis import strategies as st

from .. import core, gen, build, obs, lpkit, transfer
from .. import timeline as tl
from ..core import Outcome, is_err, eao_call

ID = "C08"
LEVEL = "exploration"
EXAMPLES = {"quick": 900, "thorough": 16000}
RULE = ("Generated: base portfolio P (contracts, takes, transports, storages, multi-commodity, order books, structured "
        "assets with windows, market pairs) plus an extra element placed before / after the horizon or with an empty "
        "window: (asset) a contract, storage, transport, multi-commodity contract, order book, scaled or coarse-frequency "
        "contract; (order) an order appended to an existing order book; (take) a take period appended to a contract; "
        "and (clip) a contract whose take period lies partly outside the horizon. Oracle: (a) V(P+e) = V(P), the "
        "solution of P+e transferred to P is feasible and optimal for P, the element has zero dispatch and zero DCF; "
        "(b) every asset's reported dispatch is zero at steps outside [start,end) and its mapping has no such step "
        "(also inside structured assets); (c) the partly-outside take period gives the same assembled rows, right-hand "
        "side and optimum as the period clipped to the horizon with value x covered/total duration. Non-trivial: "
        "the element changes the optimum when it is moved inside the horizon (checked by moving it), or for (b)/(c) an "
        "asset with a window cutting the horizon has non-zero dispatch / the clipped take row binds. "
        "Distinct = distinct spec hash.")
RULE += (' Round 5: plants and CHP with minimum-load costs with own windows in the base portfolio; a set-up error that disappears when all asset windows are removed is a violation; a scaled asset carries its window alone in half of the cases.')
ASSUMPTIONS = ["windows, orders and take periods lie on step boundaries",
               "V compared with tolerance 4e-5*(1+|V|) (two interior-point solves)"]

CLASSES = ["simple", "simple", "contract", "transport", "storage", "storage", "multi", "orderbook", "structured", "chp_minload", "plant"]


def _outside(draw, T, where):
    if where == "before":
        e = draw(st.integers(-3, 0))
        s = draw(st.integers(e - 4, e - 1))
    elif where == "after":
        s = draw(st.integers(T, T + 3))
        e = draw(st.integers(s + 1, s + 4))
    else:   # empty window inside
        s = draw(st.integers(0, T))
        e = s
    return s, e


@st.composite
def _strategy(draw):
    kind = draw(st.sampled_from(["asset", "asset", "asset", "order", "take", "clip"]))
    need_uniform = False
    spec = draw(gen.portfolios_all(classes=CLASSES, max_assets=4, with_markets=0.95, max_T=10))
    g = spec["grid"]
    T = g["T"]
    cx = gen.Cx(g, build.all_nodes(spec), spec["prices"])
    where = draw(st.sampled_from(["before", "after", "empty"]))
    extra = {"kind": kind, "where": where}
    if kind == "asset":
        cls = draw(st.sampled_from(["simple", "simple", "storage", "transport", "multi", "contract", "orderbook",
                                    "scaled", "coarse", "plant", "chp", "chp_minload"]))
        if cls == "coarse":
            a = gen.a_simple(draw, cx, "xe", allow_forms=False)
            if tl.uniform(g) and tl.freq_seconds(g["freq"]) is not None:
                a["freq"] = tl.freq_multiple(g["freq"], 2)
                a["wacc"] = 0.0
        elif cls == "scaled":
            a = gen.a_scaled(draw, cx, "xe", base_cls=draw(st.sampled_from(["simple", "storage"])))
        elif cls == "orderbook":
            a = gen.a_orderbook(draw, cx, "xe", n_max=3)
        elif cls == "plant":
            a = gen.a_plant(draw, cx, "xe", fuel=False)
        elif cls in ("chp", "chp_minload"):
            a = (gen.draw_any(draw, cx, cls, "xe") if cls == "chp_minload" else gen.a_chp(draw, cx, "xe")) if len(cx.nodes) >= 2 else gen.a_plant(draw, cx, "xe", fuel=False)
            a["nodes"] = a["nodes"][:2]
            for k_ in ("fuel_efficiency", "consumption_if_on", "start_fuel"):
                a.pop(k_, None)
        else:
            a = gen.draw_asset(draw, cx, cls, "xe")
        if a["type"] == "orderbook":
            new = []
            for o in a["orders"]:
                s, e = _outside(draw, T, "before" if where == "empty" else where)
                new.append([s, e, o[2], o[3]])
            a["orders"] = new
        else:
            s, e = _outside(draw, T, where)
            a["start"], a["end"] = s, e
            if a["type"] == "scaled" and draw(st.booleans()):
                # documented: start / end of the scaled asset = asset being active; the base asset may carry the same
                # window or none
                a["base"]["start"], a["base"]["end"] = s, e
            if a.get("min_take") or a.get("max_take"):
                a["min_take"] = a["max_take"] = None
        extra["asset"] = a
    elif kind == "order":
        books = [a for a in spec["assets"] if a["type"] == "orderbook"]
        if not books:
            b = gen.a_orderbook(draw, cx, "xb", n_max=3)
            spec["assets"].insert(0, b)
            books = [b]
        s, e = _outside(draw, T, "before" if where == "empty" else where)
        extra["book"] = books[0]["name"]
        extra["order"] = [s, e, gen.rate(draw, cx, 0.5, 3) * draw(st.sampled_from([1, -1])), draw(gen.dyadic(0, 12))]
        extra["position"] = draw(st.integers(0, len(books[0]["orders"])))
    elif kind == "take":
        cons = [a for a in spec["assets"] if a["type"] == "contract"]
        if not cons:
            c = gen.a_contract(draw, cx, "xc")
            c["start"] = c["end"] = None
            spec["assets"].insert(0, c)
            cons = [c]
        s, e = _outside(draw, T, "before" if where == "empty" else where)
        extra["contract"] = cons[0]["name"]
        lo = cons[0]["min_cap"] if isinstance(cons[0]["min_cap"], (int, float)) else 0.0
        hi = cons[0]["max_cap"] if isinstance(cons[0]["max_cap"], (int, float)) else 0.0
        # a binding value if the period were inside
        extra["take"] = [draw(st.sampled_from(["min_take", "max_take"])), [s, e, (hi if draw(st.booleans()) else lo) * 0.5 * float(sum(tl.dt(g, s, e)))]]
    else:   # clip
        c = gen.a_simple(draw, cx, "xc", allow_forms=False)
        c["type"] = "contract"
        c["start"] = c["end"] = None
        side = draw(st.sampled_from(["left", "right", "both"]))
        s = draw(st.integers(-4, -1)) if side in ("left", "both") else draw(st.integers(0, T - 1))
        e = draw(st.integers(T + 1, T + 4)) if side in ("right", "both") else draw(st.integers(max(s + 1, 1), T))
        lo, hi = c["min_cap"], c["max_cap"]
        total = float(sum(tl.dt(g, s, e)))
        r = lo + (hi - lo) * draw(st.sampled_from([0.25, 0.5, 0.75]))
        which = draw(st.sampled_from(["min_take", "max_take"]))
        c["min_take"] = c["max_take"] = None
        c[which] = [[s, e, r * total]]
        if draw(st.booleans()):
            # the contract's own window contains the period and reaches outside the horizon as well
            c["start"] = min(s, 0) - draw(st.integers(0, 2))
            c["end"] = max(e, T) + draw(st.integers(0, 2))
        spec["assets"].insert(0, c)
        extra["contract"] = "xc"
        extra["which"] = which
    spec["extra"] = extra
    return spec


def strategy(tier):
    return _strategy()


def with_extra(spec, inside=False):
    s2 = copy.deepcopy(spec)
    ex = s2.pop("extra")
    T = spec["grid"]["T"]
    if ex["kind"] == "asset":
        a = copy.deepcopy(ex["asset"])
        if inside:
            if a["type"] == "orderbook":
                a["orders"] = [[0, T, o[2], o[3]] for o in a["orders"]]
            else:
                a["start"], a["end"] = None, None
                if a["type"] == "scaled":
                    a["base"]["start"], a["base"]["end"] = None, None
        s2["assets"].append(a)
    elif ex["kind"] == "order":
        for a in s2["assets"]:
            if a["name"] == ex["book"]:
                o = list(ex["order"])
                if inside:
                    o[0], o[1] = 0, T
                a["orders"].insert(min(ex["position"], len(a["orders"])), o)
    elif ex["kind"] == "take":
        for a in s2["assets"]:
            if a["name"] == ex["contract"]:
                which, per = ex["take"]
                per = list(per)
                if inside:
                    per[0], per[1] = 0, T
                a[which] = (a.get(which) or []) + [per]
    return s2


def base_of(spec):
    s2 = copy.deepcopy(spec)
    s2.pop("extra")
    return s2


def window_clause(out, spec, r, o, tol):
    """(b): dispatch zero outside [start,end), mapping has no such step"""
    T = spec["grid"]["T"]
    disp = o["dispatch"]
    seen_cut = False
    mp = r.op.mapping

    def rng(a, outer=(None, None)):
        s, e = a.get("start"), a.get("end")
        lo = 0 if s is None else max(0, s)
        hi = T if e is None else min(T, e)
        if outer[0] is not None:
            lo = max(lo, outer[0])
        if outer[1] is not None:
            hi = min(hi, outer[1])
        return lo, hi

    for a in spec["assets"]:
        if a["type"] == "orderbook":
            continue
        lo, hi = rng(a)
        if a["type"] == "scaled":
            blo, bhi = rng(a["base"])
            lo, hi = max(lo, blo), min(hi, bhi)     # active within its own window and that of the base asset
        inside = np.array([lo <= k < hi for k in range(T)])
        for (an, n) in build.asset_node_pairs(a):
            col = build.disp_col(spec, an, n)
            if col not in disp.columns:
                continue
            v = disp[col].values.astype(float)
            if np.abs(v[~inside]).max(initial=0) > tol:
                out.fail("asset %s dispatches outside its window [%s,%s): %s" % (a["name"], a.get("start"), a.get("end"), v))
            if (~inside).any() and np.abs(v[inside]).max(initial=0) > tol:
                seen_cut = True
        rows = mp[(mp["asset"] == a["name"]) & (mp["type"] == "d")]
        if a["type"] not in ("structured", "scaled"):
            bad = [int(t) for t in rows["time_step"].values if not (lo <= int(t) < hi)]
            if bad:
                out.fail("mapping of asset %s has dispatch rows at steps %s outside its window" % (a["name"], sorted(set(bad))[:5]))
        if a["type"] == "structured":
            # inner assets: window = own window clipped by the structured asset's
            mrows = mp[mp["asset"] == a["name"]]
            for ia in a["assets"]:
                ilo, ihi = rng(ia, outer=(lo, hi) if (a.get("start") is not None or a.get("end") is not None) else (None, None))
                ilo, ihi = max(ilo, lo), min(ihi, hi)
                sel = mrows[mrows["var_name"].astype(str).str.endswith("__" + ia["name"])]
                bad = [int(t) for t in sel["time_step"].values if not (ilo <= int(t) < ihi)]
                if bad and ia["type"] != "orderbook":
                    out.fail("inner asset %s of structured asset %s has variables at steps %s outside [%d,%d)"
                             % (ia["name"], a["name"], sorted(set(bad))[:5], ilo, ihi))
    return seen_cut


def check(spec):
    out = Outcome()
    ex = spec["extra"]
    out.label("kind:" + ex["kind"], "where:" + ex["where"])
    T = spec["grid"]["T"]
    if ex["kind"] == "clip":
        return check_clip(spec, out)
    if ex["kind"] == "asset":
        out.label("extra:" + ex["asset"]["type"] + ("+coarse" if ex["asset"].get("freq") else ""))
    sP = base_of(spec)
    sE = with_extra(spec)
    rP = obs.Run(sP)
    if is_err(rP.op):
        # does the portfolio fail only because of where its assets' windows lie?  (same portfolio, all windows removed)
        def nowin(a):
            a = dict(a)
            if a.get("type") != "orderbook":
                a["start"] = a["end"] = None
            if "assets" in a:
                a["assets"] = [nowin(x) for x in a["assets"]]
            if "base" in a:
                a["base"] = nowin(a["base"])
            return a
        s0 = dict(sP, assets=[nowin(a) for a in sP["assets"]])
        r0 = obs.Run(s0)
        if not is_err(r0.op) and core.canon(s0) != core.canon(sP) and rP.op.kind in ("IndexError", "KeyError", "ValueError", "AttributeError", "TypeError") \
                and not any(a.get("freq") or a.get("periodicity") or a.get("min_take") or a.get("max_take") for a in sP["assets"]):
            return out.fail("set-up raises %s for this placement of the asset windows (%s); without windows the portfolio sets up"
                            % (rP.op.short(), [(a["name"], a["type"], a.get("start"), a.get("end")) for a in sP["assets"] if a.get("start") is not None or a.get("end") is not None]))
        return out.drop("base_setup_error:" + rP.op.kind)
    rE = obs.Run(sE)
    if is_err(rE.op):
        return out.fail("adding an element outside the horizon makes set-up raise " + rE.op.short())
    resP = rP.optimize()
    resE = rE.optimize()
    if is_err(resP) or is_err(resE):
        return out.drop("optimize_error")
    if isinstance(resP, str) or isinstance(resE, str):
        if isinstance(resP, str) != isinstance(resE, str) and "inaccurate" not in (resP, resE):
            out.fail("base portfolio: %s, with the outside element: %s" % (resP if isinstance(resP, str) else "optimal",
                                                                          resE if isinstance(resE, str) else "optimal"))
        return out if out.violations else out.drop("no_solution")
    mip = rP.is_mip or rE.is_mip
    VP, VE = float(resP.value), float(resE.value)
    tv = 2 * core.tol_val(VP, mip) + 2e-7 * float(np.abs(rP.op.c * resP.x).sum())
    if abs(VP - VE) > tv:
        out.fail("optimal value changes from %.9g to %.9g by adding an element that lies outside the horizon" % (VP, VE))
    rename = None
    if ex["kind"] == "order":
        book = [a for a in sP["assets"] if a["name"] == ex["book"]][0]
        pos = min(ex["position"], len(book["orders"]))

        def rename(k):      # orders are numbered by position: those behind the inserted one move up
            if k[0] == ex["book"] and k[1] is not None and k[1].lstrip("-").isdigit() and int(k[1]) > pos:
                return (k[0], str(int(k[1]) - 1), k[2], k[3])
            return k
    xP, missing, unused, dup = transfer.transfer(rE.op, np.asarray(resE.x, float), rP.op, rename=rename)
    if missing:
        out.fail("variables of the base portfolio have no counterpart with the extra element: %s" % missing[:3])
    else:
        for m in transfer.judge(rP.op, xP, VP, mip):
            out.fail("solution with the outside element, restricted to the base portfolio: " + m)
    oE = rE.output()
    if is_err(oE):
        return out.fail("extract_output raised " + oE.short())
    scale = lpkit.from_op(rE.op).scale()
    tol = 10 * core.tol_feas(scale)
    if ex["kind"] == "asset":
        a = ex["asset"]
        for (an, n) in build.asset_node_pairs(a):
            col = build.disp_col(sE, an, n)
            if col in oE["dispatch"].columns and np.abs(oE["dispatch"][col].values.astype(float)).max(initial=0) > tol:
                out.fail("element outside the horizon has dispatch %s" % oE["dispatch"][col].values)
        if a["name"] in oE["DCF"].columns and np.abs(oE["DCF"][a["name"]].values.astype(float)).max(initial=0) > tol:
            out.fail("element outside the horizon has cash flows %s" % oE["DCF"][a["name"]].values)
    window_clause(out, sE, rE, oE, tol)
    # non-trivial: moved inside, the element matters
    sI = with_extra(spec, inside=True)
    rI = obs.Run(sI)
    moved = False
    if not is_err(rI.op):
        resI = rI.optimize()
        if not is_err(resI):
            moved = isinstance(resI, str) or abs(float(resI.value) - VP) > 10 * tv
    out.label("matters_inside" if moved else "irrelevant_inside")
    out.nontrivial = moved
    return out


def check_clip(spec, out):
    g = spec["grid"]
    T = g["T"]
    ex = spec["extra"]
    sA = base_of(spec)
    sB = copy.deepcopy(sA)
    cA = [a for a in sA["assets"] if a["name"] == ex["contract"]][0]
    cB = [a for a in sB["assets"] if a["name"] == ex["contract"]][0]
    s, e, v = cA[ex["which"]][0]
    cs, ce = max(s, 0), min(e, T)
    total = float(sum(tl.dt(g, s, e)))
    cov = float(sum(tl.dt(g, cs, ce)))
    cB[ex["which"]] = [[cs, ce, v * cov / total]]
    # stand-alone problems of the contract
    probs = []
    for sp_ in (sA, sB):
        assets, _ = build.build_assets(sp_)
        a = [x for x in assets if x.name == ex["contract"]][0]
        op = eao_call(a.setup_optim_problem, build.build_prices(sp_), build.build_grid(g))
        if is_err(op):
            return out.fail("set-up of a contract with a take period %s raised %s" % ("partly outside" if sp_ is sA else "clipped", op.short()))
        probs.append(op)
    A, B = probs
    if (A.A is None) != (B.A is None) or (A.A is not None and (A.cType != B.cType or A.A.shape != B.A.shape)):
        out.fail("take period partly outside vs clipped period: different rows (%s vs %s)" % (A.cType, B.cType))
    elif A.A is not None:
        if abs(sp.csr_matrix(A.A) - sp.csr_matrix(B.A)).sum() > 1e-12:
            out.fail("take period partly outside vs clipped period: different row coefficients")
        if not np.allclose(A.b, B.b, rtol=1e-9, atol=1e-12):
            out.fail("take of %g over [%d,%d) is prorated to %s, expected value x covered/total = %g"
                     % (v, s, e, A.b, v * cov / total))
    rA = obs.Run(sA)
    rB = obs.Run(sB)
    if is_err(rA.op) or is_err(rB.op):
        return out.drop("setup_error")
    resA, resB = rA.optimize(), rB.optimize()
    if is_err(resA) or is_err(resB):
        return out.drop("optimize_error")
    if isinstance(resA, str) or isinstance(resB, str):
        if isinstance(resA, str) != isinstance(resB, str) and "inaccurate" not in (resA, resB):
            out.fail("partly-outside take: %s, clipped take: %s" % (resA, resB))
        return out if out.violations else out.drop("no_solution")
    VA, VB = float(resA.value), float(resB.value)
    if abs(VA - VB) > 2 * core.tol_val(VA):
        out.fail("optimum %.9g with the period partly outside, %.9g with the clipped prorated period" % (VA, VB))
    # non-trivial: the take row binds
    sC = copy.deepcopy(sA)
    [a for a in sC["assets"] if a["name"] == ex["contract"]][0][ex["which"]] = None
    rC = obs.Run(sC)
    binds = False
    if not is_err(rC.op):
        resC = rC.optimize()
        if not is_err(resC) and not isinstance(resC, str):
            binds = abs(float(resC.value) - VA) > 20 * core.tol_val(VA)
    out.label("take_binds" if binds else "take_slack")
    out.nontrivial = binds
    return out
