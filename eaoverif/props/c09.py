"""C09  Results do not depend on asset/node names or on the order of assets."""
import copy

import numpy as np
from hypothesis import strategies as st

from eaopack.optimization import Results
from eaopack.io import extract_output

from .. import core, gen, build, obs, lpkit, transfer
from ..core import Outcome, is_err, eao_call

ID = "C09"
LEVEL = "exploration"
EXAMPLES = {"quick": 700, "thorough": 14000}
RULE = ("Generated: portfolio of 2-6 assets (all LP classes, order books, scaled, structured with internal nodes, "
        "multi-commodity, transports; T up to 14 so that assets have more than 11 variables) x an injective renaming "
        "of assets (top level and inside structured assets) and nodes drawn from pools with numeric strings "
        "('1','11','111','0','10','01'), mutual prefixes/suffixes ('a','aa','a_','_a'), spaces, "
        "'<asset>_internal_<node>' look-alikes x a permutation of the asset list and of the asset lists inside structured assets. Oracle: |V - V'| <= tol; the "
        "renamed/permuted solution transferred back through (asset, variable, node, step) is feasible and optimal for "
        "the original problem; the dispatch and DCF tables of the renamed run, relabelled back, equal the tables "
        "extract_output gives for the ORIGINAL portfolio evaluated at the transferred vector. Non-trivial: >= 3 "
        "assets, renaming or permutation not the identity, and (numeric names with an asset of > 11 variables, or a "
        "non-identity permutation, or a structured asset). Distinct = distinct spec hash.")
RULE += (" 1 in 6 cases is a LinkedAsset (two plants and an unrelated contract with its own window inside the wrapped portfolio): the order and names of the wrapped assets are changed, oracle: optimal value unchanged. The name pool contains 'slp_step'. Structured assets may have two external nodes.")
ASSUMPTIONS = ["names are non-empty, distinct and contain no parentheses (the dispatch column label '<asset> (<node>)' "
               "would otherwise be ambiguous by construction of the output format)",
               "tolerance 4e-5*(1+|V|) between the two solves"]

POOL_A = ["1", "11", "111", "0", "10", "01", "2", "12", "a", "aa", "a_", "_a", "a a", "ab", "b", "x__y", "y", "x",
          "s_internal_n0", "n0", "n1", "asset", "1_internal_1", "slp_step"]
POOL_N = ["1", "11", "0", "10", "n", "nn", "n_", "a", "aa", "1_internal_1", "a_internal_n", "node 1", "x"]
CLASSES = ["simple", "simple", "contract", "transport", "storage", "storage", "multi", "orderbook", "scaled",
           "structured", "structured"]


def all_asset_names(spec):
    out = []
    for a in spec["assets"]:
        out.append(a["name"])
        if a["type"] == "structured":
            out += [x["name"] for x in a["assets"]]
    return out


def all_node_names(spec):
    out = []

    def visit(a):
        for n in a.get("nodes", []):
            if n not in out:
                out.append(n)
        if a["type"] == "structured":
            for x in a["assets"]:
                visit(x)
        if a["type"] == "scaled":
            visit(a["base"])
    for a in spec["assets"]:
        visit(a)
    return out


@st.composite
def _strategy(draw):
    spec = draw(gen.portfolios_all(classes=CLASSES, min_assets=2, max_assets=5, max_T=14, min_T=2, with_markets=0.9))
    an = all_asset_names(spec)
    nn = all_node_names(spec)
    mode = draw(st.sampled_from(["both", "both", "rename", "permute"]))
    amap, nmap = {}, {}
    if mode in ("both", "rename"):
        new_a = draw(st.lists(st.sampled_from(POOL_A + ["q%d" % i for i in range(max(0, len(an) - 12))]), min_size=len(an), max_size=len(an), unique=True))
        amap = dict(zip(an, new_a))
        if draw(st.booleans()):
            new_n = draw(st.lists(st.sampled_from(POOL_N + ["m%d" % i for i in range(max(0, len(nn) - 8))]), min_size=len(nn), max_size=len(nn), unique=True))
            nmap = dict(zip(nn, new_n))
    perm = list(range(len(spec["assets"])))
    if mode in ("both", "permute"):
        perm = list(draw(st.permutations(perm)))
    inner = {}
    if mode in ("both", "permute"):
        # the order inside wrapped portfolios is an order of assets as well
        for a in spec["assets"]:
            if a["type"] == "structured" and len(a["assets"]) > 1:
                inner[a["name"]] = list(draw(st.permutations(list(range(len(a["assets"]))))))
    spec["rename"] = {"assets": amap, "nodes": nmap, "perm": perm, "inner": inner}
    return spec


@st.composite
def _linked(draw):
    """a LinkedAsset (documented: asset1 may only run `time_back` after asset2 is on): two plants and an unrelated
    contract with its own window inside the wrapped portfolio; the order of the wrapped assets is permuted, names
    of inner assets, linked asset and node are renamed"""
    T = draw(st.integers(4, 8))
    g = {"start": draw(st.sampled_from(["2021-01-30 00:00", "2021-06-15 06:00"])), "T": T, "freq": "h", "mtu": "h",
         "tz": draw(st.sampled_from([None, "UTC", "CET"]))}
    def plant(name):
        mx = draw(st.sampled_from([2.0, 3.0, 4.0]))
        return {"type": "plant", "name": name, "nodes": ["n0"], "price": draw(st.sampled_from(["p0", "p1"])),
                "min_cap": mx * draw(st.sampled_from([0.25, 0.5])), "max_cap": mx, "extra_costs": 0.0, "wacc": 0.0,
                "start_costs": draw(st.sampled_from([0.0, 1.0, 4.0])), "running_costs": draw(st.sampled_from([0.0, 0.5])),
                "min_runtime": draw(st.sampled_from([0, 0, 1.5]))}
    inner = [plant("lead"), plant("follow")]
    k0 = draw(st.integers(0, T - 2))
    inner.append({"type": "simple", "name": "side", "nodes": ["n0"], "price": "p1", "min_cap": -1.0, "max_cap": 1.0,
                  "extra_costs": 0.0, "wacc": 0.0, "start": k0, "end": draw(st.integers(k0 + 1, T - 1))})
    if draw(st.booleans()):
        inner.append({"type": "simple", "name": "side2", "nodes": ["n0"], "price": "p0", "min_cap": 0.0, "max_cap": 0.5,
                      "extra_costs": 0.0, "wacc": 0.0})
    la = {"type": "linked", "name": "L", "nodes": ["n0"], "assets": inner, "wacc": 0.0,
          "asset1_variable": ["follow", "disp", "n0"], "asset2_variable": ["lead", "bool_on", None],
          "time_back": draw(st.sampled_from([1, 2])), "time_forward": draw(st.sampled_from([0, 0, 1])),
          "asset2_time_already_running": draw(st.sampled_from([0, 0, 1]))}
    prices = {"p0": draw(gen.price_series(T)), "p1": draw(gen.price_series(T)), "psell": draw(gen.price_series(T)),
              "pbuy": [24.0] * T}
    assets = [la,
              {"type": "simple", "name": "sell", "nodes": ["n0"], "price": "psell", "min_cap": -16.0, "max_cap": 0.0, "extra_costs": 0.0, "wacc": 0.0},
              {"type": "simple", "name": "buy", "nodes": ["n0"], "price": "pbuy", "min_cap": 0.0, "max_cap": 16.0, "extra_costs": 0.0, "wacc": 0.0}]
    perm = list(draw(st.permutations(list(range(len(inner))))))
    names = ["lead", "follow", "side", "side2", "L"]
    amap = {}
    if draw(st.booleans()):
        new = draw(st.lists(st.sampled_from(POOL_A), min_size=len(names), max_size=len(names), unique=True))
        amap = dict(zip(names, new))
    return {"kind": "linked", "grid": g, "prices": prices, "assets": assets,
            "rename": {"assets": amap, "nodes": {}, "perm": [0, 1, 2], "inner": {"L": perm}}}


def strategy(tier):
    return st.one_of(_strategy(), _strategy(), _strategy(), _strategy(), _strategy(), _linked())


def check_linked(spec):
    out = Outcome()
    rn = spec["rename"]
    s1 = {k: v for k, v in copy.deepcopy(spec).items() if k not in ("rename", "kind")}
    s2 = copy.deepcopy(s1)
    la = s2["assets"][0]
    la["assets"] = [la["assets"][i] for i in rn["inner"]["L"]]
    am = rn["assets"]
    for x in la["assets"]:
        x["name"] = am.get(x["name"], x["name"])
    la["name"] = am.get(la["name"], la["name"])
    la["asset1_variable"][0] = am.get(la["asset1_variable"][0], la["asset1_variable"][0])
    la["asset2_variable"][0] = am.get(la["asset2_variable"][0], la["asset2_variable"][0])
    perm = rn["inner"]["L"]
    out.label("linked", "inner_permuted" if perm != sorted(perm) else "same_order", "renamed" if am else "same_names")
    r1 = obs.Run(s1)
    if is_err(r1.op):
        return out.fail("set-up of a linked asset raises " + r1.op.short())
    r2 = obs.Run(s2)
    if is_err(r2.op):
        return out.fail("after renaming/permuting the wrapped assets set-up raises " + r2.op.short())
    res1, res2 = r1.optimize(), r2.optimize()
    if is_err(res1) or is_err(res2):
        return out.drop("optimize_error")
    if isinstance(res1, str) or isinstance(res2, str):
        if isinstance(res1, str) != isinstance(res2, str) and "inaccurate" not in (res1, res2):
            out.fail("original: %s, renamed/permuted: %s" % (res1 if isinstance(res1, str) else "optimal",
                                                           res2 if isinstance(res2, str) else "optimal"))
        return out if out.violations else out.drop("no_solution")
    V1, V2 = float(res1.value), float(res2.value)
    if abs(V1 - V2) > 2 * core.tol_val(V1, True):
        out.fail("linked asset: optimal value %.9g becomes %.9g after permuting the wrapped assets to %s / renaming %s"
                 % (V1, V2, perm, am))
    # the link itself: 'follow' is off unless 'lead' has been on for time_back steps (checked on both runs)
    for r, res, s in ((r1, res1, s1), (r2, res2, s2)):
        la_ = s["assets"][0]
        mp = r.op.mapping
        x = np.asarray(res.x, float)
        T = s["grid"]["T"]
        def series(var, inner_name):
            m = mp[(mp["asset"] == la_["name"]) & (mp["var_name"] == var + "__" + inner_name)]
            m = m[~m.index.duplicated(keep="first")]
            v = np.full(T, np.nan)
            for i, t in zip(m.index.values, m["time_step"].values):
                v[int(t)] = x[int(i)]
            return v
        f = series("disp", la_["asset1_variable"][0])
        on = series("bool_on", la_["asset2_variable"][0])
        if np.isnan(f).any() or np.isnan(on).any():
            out.fail("linked asset: variables of the linked pair missing in the mapping")
            continue
        tb, tf, tar = int(la_["time_back"]), int(la_["time_forward"]), int(la_.get("asset2_time_already_running", 0))
        for t in range(T):
            if f[t] <= 1e-6:
                continue
            for i in range(-tb, tf + 1):
                # (the documented meaning of the link is not part of C09's statement: recorded as a label only)
                if i + t < -tar or (0 <= i + t < T and on[i + t] < 0.5):
                    out.label("link_not_enforced")
    out.nontrivial = perm != sorted(perm) or bool(am)
    return out


def renamed(spec):
    rn = spec["rename"]
    am, nm = rn["assets"], rn["nodes"]
    s2 = copy.deepcopy(spec)
    s2.pop("rename")

    def fix(a):
        if a["type"] == "structured" and a["name"] in rn.get("inner", {}):
            a["assets"] = [a["assets"][i] for i in rn["inner"][a["name"]]]
        a["name"] = am.get(a["name"], a["name"])
        if "nodes" in a:
            a["nodes"] = [nm.get(n, n) for n in a["nodes"]]
        if a["type"] == "structured":
            for x in a["assets"]:
                fix(x)
        if a["type"] == "scaled":
            a["base"]["nodes"] = [nm.get(n, n) for n in a["base"]["nodes"]]
    for a in s2["assets"]:
        fix(a)
    s2["assets"] = [s2["assets"][i] for i in rn["perm"]]
    return s2


def check(spec):
    if spec.get("kind") == "linked":
        return check_linked(spec)
    out = Outcome()
    rn = spec["rename"]
    s1 = copy.deepcopy(spec)
    s1.pop("rename")
    s2 = renamed(spec)
    ident_r = all(k == v for k, v in rn["assets"].items()) and all(k == v for k, v in rn["nodes"].items())
    ident_p = rn["perm"] == sorted(rn["perm"]) and all(p_ == sorted(p_) for p_ in rn.get("inner", {}).values())
    out.label("inner_permuted" if any(p_ != sorted(p_) for p_ in rn.get("inner", {}).values()) else None)
    out.label("renamed" if not ident_r else "same_names", "permuted" if not ident_p else "same_order")
    r1 = obs.Run(s1)
    if is_err(r1.op):
        return out.drop("setup_error:" + r1.op.kind)
    r2 = obs.Run(s2)
    if is_err(r2.op):
        return out.fail("after renaming/permuting set-up raises " + r2.op.short())
    res1, res2 = r1.optimize(), r2.optimize()
    if is_err(res1):
        return out.drop("optimize_error")
    if is_err(res2):
        return out.fail("after renaming/permuting optimize raises " + res2.short())
    if isinstance(res1, str) or isinstance(res2, str):
        if isinstance(res1, str) != isinstance(res2, str) and "inaccurate" not in (res1, res2):
            out.fail("original: %s, renamed/permuted: %s" % (res1 if isinstance(res1, str) else "optimal",
                                                           res2 if isinstance(res2, str) else "optimal"))
        return out if out.violations else out.drop("no_solution")
    mip = r1.is_mip
    V1, V2 = float(res1.value), float(res2.value)
    tv = 2 * core.tol_val(V1, mip) + 2e-7 * float(np.abs(r1.op.c * res1.x).sum())
    if abs(V1 - V2) > tv:
        out.fail("optimal value %.9g becomes %.9g after renaming %s / permuting %s" % (V1, V2, rn["assets"], rn["perm"]))
    # transfer the renamed solution back
    inv_a = {v: k for k, v in rn["assets"].items()}
    inv_n = {v: k for k, v in rn["nodes"].items()}
    struct_names = {a["name"] for a in s1["assets"] if a["type"] == "structured"}

    def back(k):
        asset, var, node, t = k
        a0 = inv_a.get(asset, asset)
        v0 = var
        if var is not None and "__" in var and a0 in struct_names:
            # '<variable>__<inner asset>': the inner name may itself start with '_' - match known names
            cands = [nw for nw in inv_a if var.endswith("__" + nw)]
            if cands:
                tail = max(cands, key=len)
                v0 = var[:-len(tail)] + inv_a[tail]
        n0 = node
        if node is not None:
            if a0 in struct_names:
                # a structured asset names its internal nodes '<asset>_internal_<node>'; such a string may also be the
                # (new) name of some other node - decided from the nodes this asset really has
                hits = []
                for inner in inner_nodes[a0]:
                    if node == asset + "_internal_" + rn["nodes"].get(inner, inner):
                        hits.append(a0 + "_internal_" + inner)
                for outer in outer_nodes[a0]:
                    if node == rn["nodes"].get(outer, outer):
                        hits.append(outer)
                if len(hits) == 1:
                    n0 = hits[0]
                elif len(hits) > 1:
                    clash.append(node)
            elif node in inv_n:
                n0 = inv_n[node]
        return (a0, v0, n0, t)
    inner_nodes, outer_nodes = {}, {}
    for a in s1["assets"]:
        if a["type"] == "structured":
            outer_nodes[a["name"]] = list(a["nodes"])
            inn = []
            for x in a["assets"]:
                for n_ in x.get("nodes", []):
                    if n_ not in a["nodes"] and n_ not in inn:
                        inn.append(n_)
            inner_nodes[a["name"]] = inn
    clash = []
    x1, missing, unused, dup = transfer.transfer(r2.op, np.asarray(res2.x, float), r1.op, rename=back)
    if clash:
        return out.drop("internal_node_label_equals_outer_node_name")     # EAO's own label scheme collides: not a renaming issue
    if missing:
        out.fail("variables of the original problem have no counterpart after renaming: %s" % missing[:3])
        return out
    for m in transfer.judge(r1.op, x1, V1, mip):
        out.fail("renamed/permuted solution carried back to the original problem: " + m)
    # tables
    o2 = r2.output()
    if is_err(o2):
        return out.fail("extract_output after renaming raises " + o2.short())
    o1 = eao_call(extract_output, r1.pf, r1.op, Results(V2, x1, None), r1.prices)
    if is_err(o1):
        return out.drop("extract_error_original")
    scale = lpkit.from_op(r1.op).scale()
    tol = 20 * core.tol_feas(scale) + 1e-6 * (1 + abs(V1))
    for a in s1["assets"]:
        a2n = rn["assets"].get(a["name"], a["name"])
        d1 = o1["DCF"][a["name"]].values.astype(float)
        if a2n not in o2["DCF"].columns:
            out.fail("no DCF column for asset %s after renaming to %s" % (a["name"], a2n))
            continue
        d2 = o2["DCF"][a2n].values.astype(float)
        if np.abs(d1 - d2).max(initial=0) > tol:
            out.fail("cash flows of asset %s (renamed %s) differ: %s vs %s" % (a["name"], a2n, d1, d2))
        for (an, n) in build.asset_node_pairs(a):
            c1 = build.disp_col(s1, an, n)
            c2 = build.disp_col(s2, a2n, rn["nodes"].get(n, n))
            if c1 not in o1["dispatch"].columns:
                continue
            if c2 not in o2["dispatch"].columns:
                out.fail("no dispatch column '%s' after renaming" % c2)
                continue
            v1 = o1["dispatch"][c1].values.astype(float)
            v2 = o2["dispatch"][c2].values.astype(float)
            if np.abs(v1 - v2).max(initial=0) > tol:
                out.fail("dispatch of asset %s at node %s (renamed '%s') differs: %s vs %s" % (a["name"], n, c2, v1, v2))
    big = max((int((r1.op.mapping["asset"] == a["name"]).sum()) for a in s1["assets"]), default=0)
    numeric = any(v.isdigit() for v in rn["assets"].values())
    out.label("numeric_names" if numeric else None, "big_asset" if big > 11 else None)
    out.nontrivial = len(s1["assets"]) >= 3 and (not ident_r or not ident_p) and \
        ((numeric and big > 11) or not ident_p or bool(struct_names))
    return out
