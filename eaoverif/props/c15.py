"""C15  Fixing a time window pins exactly that part of the solution."""
import copy

import numpy as np
import pandas as pd
from hypothesis import strategies as st

from .. import core, gen, build, obs, lpkit
from .. import timeline as tl
from ..core import Outcome, is_err, eao_call

ID = "C15"
LEVEL = "exploration"
EXAMPLES = {"quick": 800, "thorough": 16000}
RULE = ("Generated: portfolio (contracts, takes, transports, multi-commodity, storages, order books, Plant/CHP with "
        "fuel node, scaled and structured assets, market pairs) is optimised; then rebuilt with fix_time_window given as "
        "boolean mask, index list or date (between two grid points) and either the same or new prices; in half of "
        "the cases everything goes through the split set-up (interval 6h/12h/d). Oracle: on the "
        "rebuilt problem l = u = previous x exactly for every variable one of whose mapping steps lies in the window, "
        "l and u equal to the unfixed problem for all others, everything else (c, A, b, cType) equal to the unfixed "
        "problem with the new prices; the re-optimised x equals the previous x on the pinned set; with unchanged "
        "prices the optimal value is unchanged; the call raises nothing. Non-trivial: window non-empty and proper, "
        ">= 1 pinned variable with non-zero value, and (new prices change the optimum or a variable with several "
        "mapping rows is pinned). Distinct = distinct spec hash.")
RULE += (' In a quarter of the monolithic cases the grid is set beforehand (set_timegrid) and the call leaves `timegrid` at its default.')
ASSUMPTIONS = ["date form: the date lies strictly between two grid points (inclusive/exclusive at a grid point is not specified); "
               "on zone-aware grids the date is an aware stamp, in half of the cases written in UTC",
               "a variable of a coarse-frequency / periodic asset belongs to all its steps: it is pinned if any of them lies in the window"]

CLASSES = ["simple", "simple", "contract", "transport", "transport", "storage", "storage", "multi", "multi",
           "orderbook", "plant", "chp", "chp", "scaled", "structured", "coarse", "coarse", "periodic"]


@st.composite
def _strategy(draw):
    spec = draw(gen.portfolios_all(classes=CLASSES, max_assets=4, with_markets=0.95, max_T=10, min_T=3))
    T = spec["grid"]["T"]
    form = draw(st.sampled_from(["mask", "index", "date"]))
    if form == "date":
        k = draw(st.integers(0, T - 1))
        spec["fix"] = {"form": "date", "k": k, "utc": draw(st.booleans())}
    elif form == "mask":
        m = draw(st.lists(st.booleans(), min_size=T, max_size=T))
        if draw(st.booleans()):
            k = draw(st.integers(1, T - 1))
            m = [i < k for i in range(T)]
        spec["fix"] = {"form": "mask", "mask": m}
    else:
        idx = sorted(set(draw(st.lists(st.integers(0, T - 1), min_size=0, max_size=T))))
        spec["fix"] = {"form": "index", "idx": idx}
    spec["new_prices"] = draw(st.booleans())
    spec["split"] = draw(st.sampled_from([None, None, None, "6h", "12h", "d"]))
    # call form: grid passed with the call, or set beforehand through set_timegrid (documented default of `timegrid`)
    spec["preset_grid"] = spec["split"] is None and draw(st.integers(0, 3)) == 0
    if spec["new_prices"]:
        spec["prices2"] = {k: (draw(gen.price_series(T)) if k.startswith("p") and not k.startswith("pm") else v)
                           for k, v in spec["prices"].items()}
    return spec


def strategy(tier):
    return _strategy()


def check(spec):
    out = Outcome()
    g = spec["grid"]
    T = g["T"]
    fx = spec["fix"]
    out.label("form:" + fx["form"], "new_prices" if spec["new_prices"] else "same_prices")
    base = {k: v for k, v in spec.items() if k not in ("fix", "new_prices", "prices2", "split", "preset_grid")}
    split = spec.get("split")
    out.label("build:split" if split else "build:monolithic")
    r0 = obs.Run(base, split=split)
    if is_err(r0.op):
        return out.drop("setup_error:" + r0.op.kind)
    res0 = r0.optimize()
    if is_err(res0) or isinstance(res0, str):
        return out.drop("no_first_solution")
    x0 = np.asarray(res0.x, float)
    mip = r0.is_mip
    if fx["form"] == "date":
        # halfway between grid point k and k+1
        a, b = tl.point(g, fx["k"]), tl.point(g, fx["k"] + 1)
        I = a + (b - a) / 2
        if fx.get("utc") and I.tzinfo is not None:
            I = I.tz_convert("UTC")       # the same instant written in another zone
        win = [t <= fx["k"] for t in range(T)]
    elif fx["form"] == "mask":
        I = np.array(fx["mask"], bool)
        win = list(fx["mask"])
    else:
        I = list(fx["idx"])
        win = [t in fx["idx"] for t in range(T)]
        if not I:
            I = np.zeros(T, bool)
    s2 = copy.deepcopy(base)
    if spec["new_prices"]:
        s2["prices"] = spec["prices2"]
    # unfixed problem with the (new) prices, fresh objects
    ru = obs.Run(s2, split=split)
    if is_err(ru.op):
        return out.drop("setup_error_new_prices")
    fixarg = {"I": I if not isinstance(I, list) else list(I), "x": x0.copy()}
    rf = obs.Run(s2, split=split, fix_time_window=fixarg, preset_grid=bool(spec.get("preset_grid")))
    out.label("call:grid_set_beforehand" if spec.get("preset_grid") else None)
    if is_err(rf.op):
        return out.fail("%sset-up with fix_time_window (%s) raised %s" % ("split " if split else "", fx["form"], rf.op.short()))
    opf, opu = rf.op, ru.op
    if split:
        # view the split problem as one problem: variables of all intervals stacked, mapping with original steps
        class _Cat:
            pass

        def cat(sp_):
            o = _Cat()
            o.l = np.hstack([np.asarray(p.l, float) for p in sp_.ops])
            o.u = np.hstack([np.asarray(p.u, float) for p in sp_.ops])
            o.c = np.hstack([np.asarray(p.c, float) for p in sp_.ops])
            o.b = np.hstack([np.asarray(p.b, float) for p in sp_.ops])
            o.cType = "".join(p.cType for p in sp_.ops)
            o.A = None
            o.mapping = sp_.mapping
            return o
        if len(opf.ops) != len(opu.ops):
            return out.fail("number of intervals changes with fix_time_window")
        opf_s, opu_s = opf, opu
        opf, opu = cat(opf), cat(opu)
    n = len(opu.c)
    if len(opf.c) != n or len(x0) != n:
        return out.fail("problem size changes with fix_time_window: %d vs %d" % (len(opf.c), n))
    if n == 0:
        return out.drop("empty_problem")
    mp = opu.mapping
    steps_of = {}
    for i, t in zip(mp.index.values.astype(int), mp["time_step"].values.astype(int)):
        steps_of.setdefault(i, set()).add(int(t))
    pinned = np.array([any(win[t] for t in steps_of.get(j, ())) for j in range(n)], dtype=bool)
    multi = np.array([len(mp.loc[[j]]) > 1 if j in steps_of else False for j in range(n)], dtype=bool)
    lf, uf = np.asarray(opf.l, float), np.asarray(opf.u, float)
    lu, uu = np.asarray(opu.l, float), np.asarray(opu.u, float)
    bad = np.where(pinned & ((lf != x0) | (uf != x0)))[0]
    if len(bad):
        j = int(bad[0])
        out.fail("variable %d (steps %s, in the window) has bounds [%g,%g], previous value %g"
                 % (j, sorted(steps_of.get(j, [])), lf[j], uf[j], x0[j]))
    bad = np.where(~pinned & ((lf != lu) | (uf != uu)))[0]
    if len(bad):
        j = int(bad[0])
        out.fail("variable %d (steps %s, outside the window) has bounds [%g,%g] instead of [%g,%g]"
                 % (j, sorted(steps_of.get(j, [])), lf[j], uf[j], lu[j], uu[j]))
    if not core.close_struct(opf.c, opu.c) or opf.cType != opu.cType or not core.close_struct(opf.b, opu.b) or \
            (opf.A is not None and abs(opf.A - opu.A).sum() > 1e-12):
        out.fail("fix_time_window changes costs or restrictions of the problem")
    if out.violations:
        return out
    resf = rf.optimize()
    if is_err(resf):
        return out.fail("optimising the fixed problem raised " + resf.short())
    if isinstance(resf, str):
        if not spec["new_prices"] and resf != "inaccurate":
            out.fail("with unchanged prices the fixed problem is reported '%s'" % resf)
        return out if out.violations else out.drop("fixed_problem_no_solution")
    xf = np.asarray(resf.x, float)
    scale = max(lpkit.from_op(p_).scale() for p_ in opu_s.ops) if split else lpkit.from_op(opu).scale()
    tol = 10 * core.tol_feas(scale) * (10 if mip else 1)
    d = np.abs(xf - x0)[pinned]
    if len(d) and d.max() > tol:
        out.fail("pinned variable deviates from its previous value by %g" % d.max())
    if not spec["new_prices"]:
        if abs(float(resf.value) - float(res0.value)) > 2 * core.tol_val(float(res0.value), mip):
            out.fail("unchanged prices: value %.9g with the window fixed, %.9g before" % (float(resf.value), float(res0.value)))
    changed = False
    if spec["new_prices"]:
        resu = ru.optimize()
        if not is_err(resu) and not isinstance(resu, str):
            changed = abs(float(resu.value) - float(res0.value)) > 20 * core.tol_val(float(res0.value), mip)
    proper = any(win) and not all(win)
    nz = bool((np.abs(x0[pinned]) > tol).any()) if pinned.any() else False
    out.label("multi_row_pinned" if (pinned & multi).any() else None, "window:proper" if proper else "window:trivial")
    out.nontrivial = proper and nz and (changed or bool((pinned & multi).any()))
    return out
