"""C07  The variable mapping is a faithful description of the assembled problem (no solver)."""
import numpy as np
import scipy.sparse as sp
from hypothesis import strategies as st

from .. import core, gen, build, obs, lpkit
from ..core import Outcome, is_err, eao_call

ID = "C07"
LEVEL = "exploration"
EXAMPLES = {"quick": 1600, "thorough": 30000}
RULE = ("Generated: stand-alone assets of every class and portfolios of them (T up to 40): order books with orders "
        "before/after/straddling the horizon, assets whose window misses the horizon, periodic and coarse assets with "
        "one and two variables per step, scaled/structured wrappers, MIP assets; asset names from an adversarial pool "
        "('1','11','111','0', mutual prefixes/suffixes, spaces, parentheses) in ~40%. Oracle: lengths of c,l,u = "
        "#columns of A; len(b)=len(cType)=#rows; mapping index in [0,n); no NaN; l<=u; time_step on the grid; a "
        "variable without mapping row has zero cost and an empty column; block differential: asset a occupies "
        "[off_a, off_a+n_a) in concatenation order, there c,l,u, its rows of A,b,cType and its mapping rows (shifted "
        "back, as multiset) equal the stand-alone problem of a fresh copy, its rows are zero elsewhere; exactly one N "
        "row per (node,step) with dispatch rows, coefficient = sum of disp_factor per variable, b=0, map_nodal_restr "
        "lists the same pairs in row order; periodic assets: steps sharing a variable are whole periods apart (all of them without a duration; within q periods and with at most one extra partial block with a duration - where blocks begin is not assumed), identically for every node and variable name. In 1 of 2 cases also the split build (6h, 12h, d): c is the stacked c, interval k's rows of the split mapping are its own rows with the index shifted by the number of variables before it and the steps by a constant, step ranges of successive intervals follow each other. Non-trivial: some asset has an unmapped variable, several rows per "
        "variable, appended variables (bool/scale) or an adversarial name, and the portfolio has >= 2 assets. "
        "Distinct = distinct spec hash.")
RULE += (" Split builds: the nodal rows of every interval problem are checked against the interval's own mapping; 1 in 8 cases is a two-interval split in which a windowed asset owns equally many steps at different places of the two intervals. Coarse / periodic storages may carry binary variables.")
ASSUMPTIONS = ["structural comparison rtol 1e-9 / atol 1e-12, no solver",
               "set-up errors are discarded and counted except NaN/bound assertion failures, which C07 owns"]

ADV = ["1", "11", "111", "0", "10", "01", "a", "aa", "a a", "a (n0)", "n0", "(a)", "a_", "_a", "1a", "a1", "x__y", " "]


def rename_assets(draw, spec):
    names = draw(st.lists(st.sampled_from(ADV), min_size=len(spec["assets"]), max_size=len(spec["assets"]), unique=True))
    for a, n in zip(spec["assets"], names):
        a["name"] = n
    return spec


@st.composite
def _strategy(draw):
    spec = draw(gen.portfolios_all(max_T=40, with_markets=0.5, max_assets=5))
    if draw(st.integers(0, 9)) < 4:
        rename_assets(draw, spec)
        spec["adversarial_names"] = True
    if draw(st.integers(0, 9)) < 4:
        gen.rename_nodes(draw, spec)
        spec["adversarial_names"] = True
    spec["split"] = draw(st.sampled_from([None, None, None, "6h", "12h", "d"]))
    if draw(st.integers(0, 7)) == 0:
        # split build with two intervals of the same length in which a windowed asset owns the same number of steps
        # at different places ([m-j, m+j) around the interval boundary m): equal sizes, different step placement
        m = draw(st.sampled_from([6, 12]))
        g = spec["grid"]
        if g["freq"] == "h" and g["T"] >= m + 2:
            j = draw(st.integers(1, min(m - 1, g["T"] - m)))
            cxs = gen.Cx(g, build.all_nodes(spec), spec["prices"])
            w = gen.draw_asset(draw, cxs, draw(st.sampled_from(["simple", "transport", "storage"])) if len(cxs.nodes) > 1 else "simple", "wsym")
            w["start"], w["end"] = m - j, m + j
            g["T"] = 2 * m
            for k_ in spec["prices"]:
                spec["prices"][k_] = (list(spec["prices"][k_]) * 3)[:2 * m]
            spec["assets"] = [a for a in spec["assets"] if a.get("start") is None and a.get("end") is None and not a.get("freq") and not a.get("periodicity") and a["type"] in gen.PLAIN_WINDOWED and not a.get("min_take") and not a.get("max_take")] + [w]
            spec["split"] = "%dh" % m
            spec["symmetric_window"] = True
    # coarse assets with their own discounting, and now and then a second asset with the same frequency and window but
    # another wacc (no reference model here, so discounted coarse variables need no convention)
    coarse = [a for a in spec["assets"] if a.get("freq")]
    for a in coarse:
        a["wacc"] = draw(st.sampled_from([0.0, 0.05, 0.4]))
    if coarse and draw(st.booleans()):
        twin = dict(coarse[0], name="tw", wacc=draw(st.sampled_from([0.0, 0.1, 0.4])))
        spec["assets"].insert(draw(st.integers(0, len(spec["assets"]))), twin)
    return spec


def strategy(tier):
    return _strategy()


def mapping_records(mp, shift=0):
    """multiset of mapping rows as sortable tuples (index shifted back by `shift`)"""
    cols = [c for c in ("asset", "node", "type", "time_step", "var_name", "disp_factor", "bool") if c in mp.columns]
    rec = []
    for i, row in zip(mp.index.values, mp[cols].itertuples(index=False)):
        d = dict(zip(cols, row))
        df = d.get("disp_factor", 1.0)
        if df is None or (isinstance(df, float) and np.isnan(df)):
            df = 1.0
        b = d.get("bool", False)
        b = bool(b) if isinstance(b, (bool, np.bool_)) else False
        node = d.get("node")
        node = None if (node is None or (isinstance(node, float) and np.isnan(node))) else str(node)
        rec.append((int(i) - shift, str(d.get("node") and node), str(d.get("type")), int(d.get("time_step")),
                    str(d.get("var_name")), round(float(df), 12), b))
    return sorted(rec)


def structural(out, op, T, what):
    """invariants of a single problem; returns False if later checks make no sense"""
    n = len(op.c)
    if not (len(op.l) == n and len(op.u) == n):
        out.fail("%s: lengths of c,l,u differ (%d,%d,%d)" % (what, n, len(op.l), len(op.u)))
        return False
    if op.A is not None and len(op.cType or "") > 0:
        A = sp.csr_matrix(op.A)
        if A.shape[1] != n:
            out.fail("%s: A has %d columns, %d variables" % (what, A.shape[1], n))
            return False
        if not (A.shape[0] == len(op.b) == len(op.cType)):
            out.fail("%s: rows of A %d, len(b) %d, len(cType) %d" % (what, A.shape[0], len(op.b), len(op.cType)))
            return False
        if np.isnan(A.data).any() or np.isnan(np.asarray(op.b, float)).any():
            out.fail("%s: NaN in A or b" % what)
        if set(op.cType) - set("ULSN"):
            out.fail("%s: unknown row types %s" % (what, set(op.cType) - set("ULSN")))
    else:
        A = sp.csr_matrix((0, n))
    for nm in ("c", "l", "u"):
        if np.isnan(np.asarray(getattr(op, nm), float)).any():
            out.fail("%s: NaN in %s" % (what, nm))
    if n and not np.all(np.asarray(op.l) <= np.asarray(op.u)):
        i = int(np.argmax(np.asarray(op.l) - np.asarray(op.u)))
        out.fail("%s: lower bound %g above upper bound %g at variable %d" % (what, op.l[i], op.u[i], i))
    mp = op.mapping
    if mp is not None and len(mp):
        idx = mp.index.values
        try:
            idx = idx.astype(int)
        except Exception:
            out.fail("%s: mapping index is not integer" % what)
            return False
        if idx.min() < 0 or idx.max() >= n:
            out.fail("%s: mapping points to variable %d..%d, problem has %d variables" % (what, idx.min(), idx.max(), n))
            return False
        ts = mp["time_step"].values
        if not all(float(t).is_integer() and 0 <= int(t) < T for t in ts):
            out.fail("%s: time_step outside the grid 0..%d: %s" % (what, T - 1, sorted(set(ts))[:6]))
        mapped = set(idx.tolist())
    else:
        mapped = set()
    Ac = A.tocsc()
    for j in range(n):
        if j not in mapped:
            if op.c[j] != 0:
                out.fail("%s: variable %d has no mapping row but cost %g" % (what, j, op.c[j]))
            if Ac[:, j].nnz:
                out.fail("%s: variable %d has no mapping row but occurs in a restriction" % (what, j))
    return True


def nodal_rows(out, op, A, nrows, what, shift=0):
    """exactly one nodal row per (node, step) that has dispatch rows in the mapping, coefficient = summed dispatch
    factor per variable, rhs 0, map_nodal_restr lists the pairs in row order (steps of map_nodal_restr = mapping steps
    + shift: the interval problems of a split build keep local steps in their mapping)"""
    n = len(op.c)
    mp = op.mapping
    d = mp[mp["type"] == "d"]
    exp = {}
    df = d["disp_factor"].fillna(1.0).values if "disp_factor" in d.columns else np.ones(len(d))
    for i, node, t, f in zip(d.index.values.astype(int), d["node"].values, d["time_step"].values.astype(int), df):
        exp.setdefault((int(t) + shift, str(node)), {})
        exp[(int(t) + shift, str(node))][i] = exp[(int(t) + shift, str(node))].get(i, 0.0) + float(f)
    got_pairs = [(int(t), str(nn)) for (t, nn) in (op.map_nodal_restr or [])]
    if len(got_pairs) != len(nrows):
        out.fail("%s%d nodal rows but map_nodal_restr has %d entries" % (what, len(nrows), len(got_pairs)))
    elif sorted(got_pairs) != sorted(exp.keys()) or len(set(got_pairs)) != len(got_pairs):
        out.fail("%snodal rows for %d (step,node) pairs, expected exactly one for each of %d pairs with dispatch"
                 % (what, len(got_pairs), len(exp)))
    else:
        for k, ri in enumerate(nrows):
            rowv = A[ri].toarray().ravel()
            e = np.zeros(n)
            for i, f in exp[got_pairs[k]].items():
                e[i] = f
            if not np.allclose(rowv, e, rtol=1e-9, atol=1e-12):
                out.fail("%snodal row %d %s: coefficients differ from summed dispatch factors" % (what, k, got_pairs[k]))
                break
            if op.b[ri] != 0:
                out.fail("%snodal row %d has right-hand side %g" % (what, k, op.b[ri]))
                break


def split_mapping(spec, out):
    """the mapping of a split problem describes the stacked interval problems: interval k occupies the variables
    [off_k, off_k + n_k), its rows are the interval's own rows with the index shifted by off_k and the steps by a
    constant, the step ranges of successive intervals follow each other on the original grid, c is the stacked c"""
    rs = obs.Run(spec, split=spec["split"])
    if is_err(rs.op):
        return out.label("split_setup_error:" + rs.op.kind)
    ops = rs.op.ops
    mp = rs.op.mapping
    ntot = sum(len(o.c) for o in ops)
    out.label("split_mapping_checked", "split_intervals:%d" % min(len(ops), 4))
    if len(rs.op.c) != ntot or not core.close_struct(rs.op.c, np.hstack([np.asarray(o.c, float) for o in ops]) if ops else np.zeros(0)):
        return out.fail("split problem: c is not the stacked c of the interval problems")
    idx = mp.index.values.astype(int)
    if len(idx) and (idx.min() < 0 or idx.max() >= ntot):
        return out.fail("split mapping: index outside [0,%d)" % ntot)
    if len(mp) != sum(len(o.mapping) for o in ops):
        return out.fail("split mapping has %d rows, the interval mappings %d" % (len(mp), sum(len(o.mapping) for o in ops)))
    off = 0
    prev_hi = -1
    T = spec["grid"]["T"]
    for k, o in enumerate(ops):
        nk = len(o.c)
        rows = mp[(idx >= off) & (idx < off + nk)]
        if len(rows) != len(o.mapping):
            return out.fail("split mapping: interval %d has %d rows for its variables [%d,%d), its own mapping has %d"
                            % (k, len(rows), off, off + nk, len(o.mapping)))
        if len(rows):
            shift = int(rows["time_step"].min()) - int(o.mapping["time_step"].min())
            loc = o.mapping.copy()
            loc["time_step"] = loc["time_step"].astype(int) + shift
            try:
                ra, rb = mapping_records(rows, off), mapping_records(loc)
            except Exception as e:
                return out.fail("split mapping rows cannot be read: %r" % (e,))
            if ra != rb:
                diff = [x for x in ra if x not in rb][:2] + [x for x in rb if x not in ra][:2]
                return out.fail("split mapping: rows of interval %d (index - %d, steps - %d) differ from the interval's own mapping, e.g. %s"
                                % (k, off, shift, diff))
            lo, hi = int(rows["time_step"].min()), int(rows["time_step"].max())
            if lo <= prev_hi or hi >= T:
                return out.fail("split mapping: interval %d covers steps %d..%d, previous intervals reach step %d, grid has %d steps"
                                % (k, lo, hi, prev_hi, T))
            prev_hi = hi
            # the interval's own nodal rows (the trailing rows of type N) against the interval's own mapping
            cT = np.array(list(o.cType or ""))
            nN = 0
            while nN < len(cT) and cT[len(cT) - 1 - nN] == "N":
                nN += 1
            sub = Outcome()
            nodal_rows(sub, o, sp.csr_matrix(o.A), np.arange(len(cT) - nN, len(cT)), "split interval %d: " % k, shift=shift)
            if sub.violations:
                return out.fail(sub.violations[0])
        off += nk


def check(spec):
    out = Outcome()
    T = spec["grid"]["T"]
    cls = obs.classes_of(spec)
    out.label(*["class:" + c for c in set(cls)])
    r = obs.Run(spec)
    if is_err(r.op):
        if r.op.kind == "AssertionError" and ("nan" in str(r.op.exc).lower()):
            return out.fail("set-up produced NaN: " + r.op.short())
        return out.drop("setup_error:" + r.op.kind)
    op = r.op
    if not structural(out, op, T, "portfolio"):
        return out
    n = len(op.c)
    A = sp.csr_matrix(op.A) if op.A is not None else sp.csr_matrix((0, n))
    cT = np.array(list(op.cType))
    # ---------------------------------------------------------------- block differential
    fresh, _ = build.build_assets(spec)
    grid2 = build.build_grid(spec["grid"])
    pr2 = build.build_prices(spec)
    off = 0
    row = 0
    special = False
    for a, fa in zip(spec["assets"], fresh):
        so = eao_call(fa.setup_optim_problem, pr2, build.build_grid(spec["grid"]))   # its own grid object: nothing shared
        if is_err(so):
            return out.drop("standalone_setup_error:" + so.kind)
        if not structural(out, so, T, "stand-alone " + a["name"]):
            return out
        na = len(so.c)
        for nm in ("c", "l", "u"):
            if not core.close_struct(getattr(op, nm)[off:off + na], getattr(so, nm)):
                out.fail("asset %s: %s of its variables [%d,%d) differs from its stand-alone problem"
                         % (a["name"], nm, off, off + na))
        ma = so.A.shape[0] if (so.A is not None and len(so.cType or "")) else 0
        if ma:
            blk = A[row:row + ma]
            if "".join(cT[row:row + ma]) != so.cType:
                out.fail("asset %s: row types differ from stand-alone problem" % a["name"])
            elif not core.close_struct(op.b[row:row + ma], so.b):
                out.fail("asset %s: right-hand sides differ from stand-alone problem" % a["name"])
            else:
                inside = blk[:, off:off + na]
                d = abs(inside - sp.csr_matrix(so.A))
                if d.nnz and d.max() > 1e-9 * (1 + abs(sp.csr_matrix(so.A)).max()):
                    out.fail("asset %s: its rows of A differ from its stand-alone problem" % a["name"])
                outside = abs(blk).sum() - abs(inside).sum()
                if outside > 1e-12:
                    out.fail("asset %s: its rows touch variables of other assets" % a["name"])
            row += ma
        mp_a = op.mapping[op.mapping["asset"] == a["name"]]
        try:
            ra = mapping_records(mp_a, off) if len(mp_a) else []
            rs = mapping_records(so.mapping) if (so.mapping is not None and len(so.mapping)) else []
        except Exception as e:  # NaN time steps etc.
            return out.fail("asset %s: mapping rows cannot be read: %r" % (a["name"], e))
        if ra != rs:
            diff = [x for x in ra if x not in rs][:2] + [x for x in rs if x not in ra][:2]
            out.fail("asset %s: mapping rows (shifted back by %d) differ from stand-alone mapping, e.g. %s"
                     % (a["name"], off, diff))
        if so.mapping is not None and len(so.mapping):
            idx = so.mapping.index.values.astype(int)
            if len(set(idx.tolist())) < na or len(idx) > len(set(idx.tolist())) or \
                    any(k in so.mapping.get("var_name", []).values.tolist() for k in ("scale",)) or \
                    ("bool" in so.mapping.columns and so.mapping["bool"].fillna(False).astype(bool).any()):
                special = True
        elif na:
            special = True
        off += na
    if off != n:
        out.fail("assets have %d variables in total but portfolio has %d" % (off, n))
    # ---------------------------------------------------------------- periodic assets: which steps share a variable
    # (independent of the block differential, which compares EAO with itself).  Steps that share a variable are a whole
    # number of periods apart; without a duration all such steps share one; with a duration of q periods the steps of a
    # variable lie within q periods and no more than one extra (partial) block of variables exists - where the blocks
    # begin is EAO's calendar arithmetic and not assumed; every node / variable name of the asset joins the same steps
    for a in spec["assets"]:
        if not a.get("_p") or a.get("freq"):
            continue
        p_, q_ = a["_p"], a.get("_q")
        m_ = op.mapping[(op.mapping["asset"] == a["name"])]
        m_ = m_[m_["type"].isin(["d"])]
        if len(m_) == 0:
            continue
        out.label("periodic_rows_checked")
        groups = {}
        for i_, node, vn, t in zip(m_.index.values.astype(int), m_["node"].astype(str).values, m_["var_name"].astype(str).values,
                                   m_["time_step"].values.astype(int)):
            groups.setdefault((node, vn), {})[int(t)] = int(i_)
        parts = {}
        msg = None
        for (node, vn), tv in groups.items():
            classes = {}
            for t, v in tv.items():
                classes.setdefault(v, []).append(t)
            for v, ts_ in classes.items():
                if any((t - ts_[0]) % p_ for t in ts_):
                    msg = "variable %d joins steps %s that are not whole periods apart" % (v, sorted(ts_))
                elif q_ is not None and max(ts_) - min(ts_) >= p_ * q_:
                    msg = "variable %d joins steps %s over more than the duration of %d periods" % (v, sorted(ts_), q_)
            steps = sorted(tv)
            if q_ is None:
                for x in steps:
                    for y in steps:
                        if y > x and (y - x) % p_ == 0 and tv[x] != tv[y]:
                            msg = "steps %d and %d are whole periods apart but refer to variables %d and %d" % (x, y, tv[x], tv[y])
            else:
                span = steps[-1] - steps[0] + 1
                most = (-(-span // (p_ * q_)) + 1) * p_
                if len(classes) > most:
                    msg = "%d variables for %d steps, at most %d expected" % (len(classes), span, most)
            parts[(node, vn)] = (tuple(steps), frozenset(frozenset(c) for c in classes.values()))
            if msg:
                out.fail("periodic asset %s (period %d steps%s), node %s %s: %s"
                         % (a["name"], p_, "" if q_ is None else ", duration %d periods" % q_, node, vn, msg))
                break
        if not msg:
            by_steps = {}
            for k_, (st_, pa_) in parts.items():
                by_steps.setdefault(st_, set()).add(pa_)
            if any(len(v) > 1 for v in by_steps.values()):
                out.fail("periodic asset %s: its nodes / variable names join different sets of steps" % a["name"])
    if len(set(op.mapping["asset"].unique()) - set(a["name"] for a in spec["assets"])):
        out.fail("mapping names unknown assets %s" % (set(op.mapping["asset"].unique()) - set(a["name"] for a in spec["assets"])))
    # ---------------------------------------------------------------- nodal rows
    # (rows of type N inside an asset's block belong to internal nodes of structured assets)
    nrows = np.arange(row, len(cT))
    if len(nrows) and not all(cT[nrows] == "N"):
        out.fail("rows after the %d asset rows are not all nodal rows" % row)
    nodal_rows(out, op, A, nrows, "")
    if spec.get("split") and not out.violations:
        split_mapping(spec, out)
    out.label("special_shape" if special else "plain_shape", "adversarial_names" if spec.get("adversarial_names") else None)
    out.nontrivial = len(spec["assets"]) >= 2 and (special or bool(spec.get("adversarial_names")))
    return out
