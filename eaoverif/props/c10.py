"""C10  Building a problem is a pure function of parameters, prices and grid (histories)."""
import copy

import numpy as np
import pandas as pd
from hypothesis import strategies as st

from eaopack import serialization
from eaopack.portfolio import Portfolio
from eaopack.io import extract_output

from .. import core, gen, build, obs, lpkit
from .. import timeline as tl
from ..core import Outcome, is_err, eao_call
from . import c07, c12

ID = "C10"
LEVEL = "exploration"
EXAMPLES = {"quick": 500, "thorough": 10000}
RULE = ("Generated histories: live objects are built once - 2-4 assets (contracts with interval-dictionary parameters "
        "in list/array/implicit-end/single-start form and takes, storages, transports, CHP/Plant, scaled, structured "
        "with window, order book; naive stamps) inside one live Portfolio, 2-3 live Timegrid objects differing in "
        "horizon, time zone (none/UTC/CET/New York), frequency and main time unit, live price containers (dict of "
        "arrays, DataFrame with range index) - then a sequence of 3-12 operations is run on them: set up asset k on "
        "grid i, set up portfolio on grid i, set up split portfolio on grid i, set up with fix_time_window (dict "
        "re-used), optimise / extract the last problem, serialise and reload asset k, create cost samples. Model: "
        "after each set-up the same call is made on objects rebuilt from pristine copies of the spec; the two "
        "problems must be equal (arrays rtol 1e-9, mapping rows as multiset); if the fresh call raises the live "
        "call must raise too and vice versa; price containers must equal their pristine copies after every "
        "step. Non-trivial: the history contains >= 2 set-ups touching the same asset with different time zone or "
        "horizon, or a set-up after a serialise/reload, and no precondition error. Distinct = distinct spec hash.")
RULE += (" A fix dictionary shared by all grids (date + solution vector longer than any problem), a rolled grid (same length, moved by 1-3 steps), capacities as the caller's float array, and compound operations set-up/optimise/extract whose tables are compared with those fresh objects give for the same solution vector.")
RULE += (' Round 5: set-up of one asset with the grid set beforehand on all assets (timegrid left at its default); coarse assets with explicit windows inside every rolled grid; a rolling horizon updating the initial state of a unit by assignment; a min-load CHP whose on-variables depend on a price column that is zero on some grids; for about a quarter of the histories the last set-up is repeated in a pristine interpreter (state kept at module / class level is invisible to objects rebuilt in the same process).')
ASSUMPTIONS = ["the fresh-object call defines the expected outcome, including expected exceptions for invalid combinations "
               "(e.g. zone-aware stamps on a naive grid)",
               "a rolling horizon updates the declared initial state of a plant / CHP (time already running, last dispatch, minimum runtime) by attribute assignment on the live object; the model follows the new parameters",
               "operations are generated as a list and interpreted in order (equivalent to a rule-based state machine with "
               "total rules); the shrunk list is the replay"]
SHRINK_BUDGET = {"quick": 120, "thorough": 500}

ZONES = [None, "UTC", "CET", "America/New_York"]


@st.composite
def _strategy(draw):
    freq = draw(st.sampled_from(["h", "h", "2h", "15min"]))
    date = draw(st.sampled_from(["2021-01-30", "2021-06-15", "2021-03-27"]))
    T0 = draw(st.integers(4, 8))
    g0 = {"start": date + " 00:00", "T": T0, "freq": freq, "mtu": "h", "tz": None}
    grids = [g0]
    for i in range(draw(st.integers(1, 2))):
        shift = draw(st.integers(0, 3))
        gi = {"start": str(tl.point(g0, shift)), "T": draw(st.integers(2, 8)),
              "freq": draw(st.sampled_from([freq, freq, tl.freq_multiple(freq, 2)])),
              "mtu": draw(st.sampled_from(["h", "h", "d"])), "tz": draw(st.sampled_from(ZONES))}
        grids.append(gi)
    if draw(st.booleans()):
        grids[0] = dict(g0, tz=draw(st.sampled_from(ZONES)))
    if draw(st.booleans()):
        # rolling horizon: the same grid moved on by a few steps (same length, zone, frequency, unit) - problems of the
        # same size with the assets' windows at other places
        grids.append(dict(grids[0], start=str(tl.point(g0, draw(st.integers(1, 3))))))
    nodes = ["n0", "n1"]
    cx = gen.Cx(g0, nodes, {"p0": [0.0] * T0, "p1": [0.0] * T0, "pz": [0.0] * T0})
    assets = []
    n = draw(st.integers(2, 4))
    for i in range(n):
        cls = draw(st.sampled_from(["simple", "simple", "contract", "storage", "transport", "transport", "chp", "plant",
                                    "scaled", "structured", "orderbook", "multi", "coarse", "coarse", "chp_minload"]))
        a = gen.draw_any(draw, cx, cls, "a%d" % i)
        a["naive"] = True
        if a["type"] == "chp_minload":
            # nothing but the start costs can call for on-variables, and these are a column of the price data that is
            # zero on some grids and positive on others
            a.update(min_cap=0.0, min_runtime=0, running_costs=0.0, start_costs={"col": "pz"}, nodes=a["nodes"][:2])
            for k_ in ("fuel_efficiency", "consumption_if_on", "start_fuel", "ramp", "time_already_running", "last_dispatch", "start", "end"):
                a.pop(k_, None)
        if cls == "coarse":
            a["freq"] = tl.freq_multiple(freq, 2)     # equals the frequency of some grids, coarser than others
            a["start"] = a["end"] = None
            if draw(st.booleans()):
                # an explicit window of whole coarse steps: the same dates on every grid
                s0 = draw(st.sampled_from([0, 2, 3, 3])) if T0 >= 5 else 0      # (3: inside every rolled grid as well)
                a["start"], a["end"] = s0, s0 + 2 * draw(st.integers(1, max(1, (T0 - s0) // 2)))
            a["wacc"] = draw(st.sampled_from([0.0, 0.05, 0.4]))     # several coarse assets with the same window, own discounting
        if a["type"] == "structured" and draw(st.booleans()):
            a["start"], a["end"] = draw(st.integers(0, 1)), draw(st.integers(T0 - 2, T0))   # both ends clip the inner assets
            for x in a["assets"]:
                if draw(st.booleans()):
                    x["start"], x["end"] = draw(st.integers(-1, 1)), draw(st.integers(T0 - 1, T0 + 1))
        if a["type"] in ("chp", "plant") and draw(st.integers(0, 2)) == 0:
            # capacity as the caller's float array, one value per step (same length on the rolled grids)
            a["max_cap"] = {"vec": [float(a["max_cap"])] * T0}
            a["start"] = a["end"] = None         # (one value per step of the asset: the whole grid)
        if a["type"] in ("chp", "plant") and draw(st.booleans()):
            # start / shutdown profiles without ramp_freq: interpreted in the main time unit of the grid at hand
            mx_ = a["max_cap"]["vec"][0] if isinstance(a["max_cap"], dict) else a["max_cap"]
            a["min_cap"] = max(a["min_cap"], 0.25 * mx_)
            a["start_ramp_lower_bounds"] = [0.5 * a["min_cap"]]
            a["start_ramp_upper_bounds"] = [0.5 * a["min_cap"]]
            if draw(st.booleans()):
                a["shutdown_ramp_lower_bounds"] = [0.5 * a["min_cap"]]
                a["shutdown_ramp_upper_bounds"] = [0.5 * a["min_cap"]]
            if draw(st.booleans()):
                # the caller's float arrays, and a ramp frequency that equals the frequency of some of the grids
                a["profile_form"] = "array"
                if draw(st.booleans()):
                    a["ramp_freq"] = freq
        # interval dictionaries in the forms that get normalised
        if a["type"] in ("simple", "contract", "multi") and draw(st.booleans()):
            v = a["max_cap"] if isinstance(a["max_cap"], (int, float)) else 1.0
            form = draw(st.sampled_from(["single_start", "implicit", "list", "array"]))
            if form == "single_start":
                a["max_cap"] = {"iv": [[-40, 99, v]], "implicit_end": True}
            elif form == "implicit":
                a["max_cap"] = {"iv": [[-40, 3, v], [3, 99, v * 0.5], [60, 99, v]], "implicit_end": True}
            else:
                a["max_cap"] = {"iv": [[-40, 3, v], [3, 60, v * 0.5]], "form": form}
            if draw(st.booleans()):
                a["extra_costs"] = {"iv": [[-40, 99, 0.25]], "implicit_end": True}
        assets.append(a)
    ngr = len(grids)
    prices = []
    for gi in grids:
        prices.append({k: draw(gen.price_series(gi["T"])) for k in cx.prices})
        prices[-1]["pz"] = [draw(st.sampled_from([0.0, 0.0, 2.0]))] * gi["T"]
    steps = []
    for _ in range(draw(st.integers(3, 12))):
        op = draw(st.sampled_from(["setup_asset", "setup_asset", "setup_portfolio", "setup_portfolio", "setup_split",
                                   "setup_fix", "optimize", "extract", "reload", "cost_samples", "shortcut", "json", "json",
                                   "setup_inner", "run_split", "run_mono", "setup_preset", "setup_preset", "mutate"]))
        steps.append({"op": op, "k": draw(st.integers(0, n - 1)), "g": draw(st.integers(0, ngr - 1)),
                      "frame": draw(st.booleans()), "interval": draw(st.sampled_from(["2h", "3h", "d"]))})
    return {"grid": g0, "grids": grids, "assets": assets, "prices_per_grid": prices, "steps": steps,
            # 1 history in 16: the last set-up is repeated in a pristine interpreter (state kept at module / class level)
            "pristine": draw(st.integers(0, 15)) == 0}


def strategy(tier):
    return _strategy()


def build_assets(spec):
    s = {"grid": spec["grid"], "assets": spec["assets"]}
    assets, _ = build.build_assets(s)
    return assets


def price_container(spec, gi, frame):
    d = {k: np.array(v, float) for k, v in spec["prices_per_grid"][gi].items()}
    if frame:
        return pd.DataFrame(d)        # range index: row i belongs to grid point i
    return d


def snapshot(p):
    if isinstance(p, pd.DataFrame):
        return ("frame", list(p.columns), list(p.index), p.values.copy())
    return ("dict", sorted(p), None, {k: v.copy() for k, v in p.items()})


def same_snapshot(a, b):
    if a[0] != b[0] or a[1] != b[1]:
        return False
    if a[0] == "frame":
        return list(a[2]) == list(b[2]) and np.array_equal(a[3], b[3], equal_nan=True)
    return all(np.array_equal(a[3][k], b[3][k]) for k in a[1])


def strip_grids(js):
    import json

    def walk(o):
        if isinstance(o, dict):
            return {k: walk(v) for k, v in o.items() if k != "timegrid"}
        if isinstance(o, list):
            return [walk(v) for v in o]
        return o
    return json.dumps(walk(json.loads(js)), indent=1, sort_keys=True)


def compare(out, live, fresh, what):
    if is_err(fresh) and is_err(live):
        return
    if is_err(fresh) != is_err(live):
        if is_err(live):
            out.fail("%s: raises %s on the re-used objects but works on fresh ones" % (what, live.short()))
        else:
            out.fail("%s: works on the re-used objects but raises %s on fresh ones" % (what, fresh.short()))
        return
    if isinstance(live, np.ndarray) or isinstance(fresh, np.ndarray):
        try:
            la, fa = np.asarray(live, float), np.asarray(fresh, float)
        except Exception:
            out.fail("%s: the cost vector contains objects that are not numbers (%s)" % (what, sorted(set(type(v).__name__ for v in np.asarray(live, object).ravel()))[:3]))
            return
        if la.shape != fa.shape or not np.allclose(la, fa, rtol=1e-9, atol=1e-12):
            out.fail("%s: cost vector differs from fresh objects" % what)
        return
    ops_l = live.ops if hasattr(live, "ops") else [live]
    ops_f = fresh.ops if hasattr(fresh, "ops") else [fresh]
    if len(ops_l) != len(ops_f):
        out.fail("%s: %d interval problems on re-used objects, %d on fresh ones" % (what, len(ops_l), len(ops_f)))
        return
    for k, (a, b) in enumerate(zip(ops_l, ops_f)):
        sub = Outcome()
        c12.same_problem(sub, a, b, what)
        if not sub.violations:
            try:
                ra = c07.mapping_records(a.mapping) if len(a.mapping) else []
                rb = c07.mapping_records(b.mapping) if len(b.mapping) else []
                if ra != rb:
                    sub.fail("%s: mapping differs" % what)
            except Exception as e:
                sub.fail("%s: mapping unreadable %r" % (what, e))
        for v in sub.violations:
            out.fail(v + " (re-used objects vs fresh objects)")
        if sub.violations:
            return


def pristine_compare(out, spec, st_, live):
    """the last set-up of the history against the same call in an interpreter that has built nothing else"""
    import json, os, subprocess, sys
    import scipy.sparse as sp
    req = json.dumps({"spec": {k_: v_ for k_, v_ in spec.items() if k_ != "steps"}, "step": st_}, default=core._json_default)
    try:
        r = subprocess.run([sys.executable, "-W", "ignore", "-m", "eaoverif.pristine"], input=req, capture_output=True, text=True,
                           timeout=300, env=dict(os.environ, PYTHONHASHSEED="0"))
        ans = json.loads(r.stdout)
    except Exception as e:
        raise core.HarnessError("pristine interpreter failed: %r" % (e,))
    out.label("pristine_compared")
    what = "last set-up of the history (%s, grid %d) against a pristine interpreter" % (st_["op"], st_["g"])
    if "error" in ans or is_err(live):
        if ("error" in ans) != bool(is_err(live)):
            out.fail("%s: %s in this process, %s in a pristine one" % (what, "raises " + live.short() if is_err(live) else "works",
                                                                     "raises " + ans["error"] if "error" in ans else "works"))
        return
    ops_l = live.ops if hasattr(live, "ops") else [live]
    if len(ops_l) != len(ans["ops"]):
        return out.fail("%s: %d interval problems here, %d there" % (what, len(ops_l), len(ans["ops"])))
    for a, b in zip(ops_l, ans["ops"]):
        for nm in ("c", "l", "u"):
            x, y = np.asarray(getattr(a, nm), float), np.asarray(b[nm], float)
            if x.shape != y.shape or not np.allclose(x, y, rtol=1e-9, atol=1e-12):
                return out.fail("%s: %s differs" % (what, nm))
        if (a.cType or "") != b["cType"]:
            return out.fail("%s: row types differ" % what)
        if len(b["cType"]):
            if not np.allclose(np.asarray(a.b, float), np.asarray(b["b"], float), rtol=1e-9, atol=1e-12):
                return out.fail("%s: right-hand sides differ" % what)
            rows, cols, data, shape = b["A"]
            B = sp.csr_matrix((data, (rows, cols)), shape=tuple(shape))
            if sp.csr_matrix(a.A).shape != B.shape or abs(sp.csr_matrix(a.A) - B).max() > 1e-9:
                return out.fail("%s: restriction matrix differs" % what)
        ra = [list(r_) for r_ in (c07.mapping_records(a.mapping) if len(a.mapping) else [])]
        if json.loads(json.dumps(ra)) != b["mapping"]:
            return out.fail("%s: mapping differs" % what)


def check(spec):
    out = Outcome()
    cur = spec           # the parameters as they stand (a copy is made when a rolling horizon updates the initial state of a unit)
    live_assets = build_assets(cur)
    live_pf = Portfolio(live_assets)
    live_grids = [build.build_grid(g) for g in spec["grids"]]
    live_prices = {}
    pristine = {}
    fixdict = {}
    last_setup = None    # (step, live result) of the last plain set-up, for the pristine-interpreter comparison
    last = None          # (op, portfolio, prices, grid index)
    touched = {}         # asset index -> set of (tz, start, T) it was set up with
    reloaded = set()
    interesting = False
    precondition_errors = 0
    n_assets = len(live_assets)

    def prices_for(gi, frame):
        key = (gi, frame)
        if key not in live_prices:
            live_prices[key] = price_container(spec, gi, frame)
            pristine[key] = snapshot(price_container(spec, gi, frame))
        return live_prices[key]

    def touch(ks, gi):
        nonlocal interesting
        g = spec["grids"][gi]
        sig = (g["tz"], g["start"], g["T"], g["mtu"])
        for k in ks:
            s = touched.setdefault(k, set())
            if s and sig not in s:
                interesting = True
            if k in reloaded:
                interesting = True
            s.add(sig)

    steps = []
    for st_ in spec["steps"]:
        if st_["op"] in ("run_split", "run_mono"):
            # set up (split / monolithic), optimise and extract in one go
            steps += [dict(st_, op="setup_split" if st_["op"] == "run_split" else "setup_portfolio"), dict(st_, op="optimize"), dict(st_, op="extract")]
        else:
            steps.append(st_)
    for i, st_ in enumerate(steps):
        op, k, gi, frame = st_["op"], st_["k"] % n_assets, st_["g"], st_["frame"]
        what = "step %d %s" % (i, op)
        out.label("op:" + op)
        if op not in ("optimize", "extract", "json"):
            last = None      # results are extracted from the objects in the state of the set-up that produced the problem
        if op == "setup_asset":
            p = prices_for(gi, False)
            live = eao_call(live_assets[k].setup_optim_problem, p, live_grids[gi])
            fa = build_assets(cur)[k]
            fresh = eao_call(fa.setup_optim_problem, price_container(spec, gi, False), build.build_grid(spec["grids"][gi]))
            compare(out, live, fresh, "%s (asset %s, grid %d)" % (what, spec["assets"][k]["name"], gi))
            touch([k], gi)
            if k not in reloaded:
                last_setup = (dict(st_, k=k, use_frame=False), live, cur)
            if is_err(fresh):
                precondition_errors += 1
        elif op == "mutate":
            # rolling horizon: the declared initial state of a unit is updated by assignment between two runs (the
            # parameters of the model follow); other asset types: nothing happens
            a_ = cur["assets"][k]
            if a_["type"] in ("plant", "chp") and k not in reloaded and not a_.get("min_downtime"):
                cur = copy.deepcopy(cur)
                a_ = cur["assets"][k]
                dt0 = float(tl.dt(spec["grids"][gi])[0])
                running = not a_.get("time_already_running")
                mc = a_["min_cap"] if isinstance(a_.get("min_cap"), (int, float)) else 0.0
                new = {"time_already_running": (1.5 + (i % 2)) * dt0 if running else 0, "time_already_off": 0,
                       "last_dispatch": mc if running else 0.0,
                       "min_runtime": (2.5 if not a_.get("min_runtime") else 0) * dt0}
                for key, v_ in new.items():
                    a_[key] = v_
                    setattr(live_assets[k], key, v_)
                out.label("initial_state_updated")
        elif op == "setup_preset":
            # documented default of `timegrid`: the grid is set beforehand on every asset (as a portfolio does), then
            # asset k is set up without passing the grid
            p = prices_for(gi, False)
            errs = [eao_call(a_.set_timegrid, live_grids[gi]) for a_ in live_assets]
            fa = build_assets(cur)[k]
            fresh = eao_call(fa.setup_optim_problem, price_container(spec, gi, False), build.build_grid(spec["grids"][gi]))
            if any(is_err(e_) for e_ in errs):
                if not is_err(fresh):
                    precondition_errors += 1      # some other asset does not accept this grid (e.g. coarser than its own frequency)
                continue
            live = eao_call(live_assets[k].setup_optim_problem, p)
            compare(out, live, fresh, "%s (asset %s, grid %d set beforehand on all assets)" % (what, spec["assets"][k]["name"], gi))
            touch(range(n_assets), gi)
            if is_err(fresh):
                precondition_errors += 1
        elif op in ("setup_portfolio", "setup_split", "setup_fix", "cost_samples", "shortcut"):
            use_frame = frame and op in ("setup_split", "shortcut", "setup_portfolio")
            p = prices_for(gi, use_frame)
            fpf = Portfolio(build_assets(cur))
            fp = price_container(spec, gi, use_frame)
            fg = build.build_grid(spec["grids"][gi])
            if op == "setup_portfolio":
                live = eao_call(live_pf.setup_optim_problem, p, live_grids[gi])
                fresh = eao_call(fpf.setup_optim_problem, fp, fg)
            elif op == "setup_split":
                live = eao_call(live_pf.setup_split_optim_problem, p, live_grids[gi], interval_size=st_["interval"])
                fresh = eao_call(fpf.setup_split_optim_problem, fp, fg, interval_size=st_["interval"])
            elif op == "setup_fix":
                # a fix dictionary owned by the caller and re-used between calls
                # (frame flag set: one dictionary for all grids - a date and a solution vector longer than any problem,
                #  the rolling-horizon usage; otherwise one dictionary per grid)
                fkey = "shared" if frame else gi
                if fkey not in fixdict:
                    base = eao_call(fpf.setup_optim_problem, fp, fg)
                    if is_err(base):
                        precondition_errors += 1
                        continue
                    half = tl.point(spec["grids"][gi], 0) + (tl.point(spec["grids"][gi], 1) - tl.point(spec["grids"][gi], 0)) / 2
                    nv = 4000 if frame else len(base.c)
                    fixdict[fkey] = ({"I": half, "x": np.zeros(nv)}, half, nv)
                    out.label("fixdict:" + ("shared" if frame else "per_grid"))
                d, half, nvar = fixdict[fkey]
                live = eao_call(live_pf.setup_optim_problem, p, live_grids[gi], fix_time_window=d)
                fresh = eao_call(Portfolio(build_assets(cur)).setup_optim_problem, fp, fg,
                                 fix_time_window={"I": half, "x": np.zeros(nvar)})
            elif op == "cost_samples":
                live = eao_call(lambda: np.hstack(live_pf.create_cost_samples([p], live_grids[gi])))
                fresh = eao_call(lambda: np.hstack(fpf.create_cost_samples([fp], fg)))
            else:
                import eaopack
                def run(pf, pr, gr):
                    o = eaopack.io.optimize(pf, gr, pr)
                    return np.array([float(o["summary"].loc["value", "Values"])]) if not isinstance(o["summary"], dict) else np.array([np.nan])
                live = eao_call(run, live_pf, p, live_grids[gi])
                fresh = eao_call(run, fpf, fp, fg)
                if not is_err(live) and not is_err(fresh):
                    if np.isnan(live[0]) != np.isnan(fresh[0]) or (not np.isnan(live[0]) and abs(live[0] - fresh[0]) > 4 * core.tol_val(fresh[0], True)):
                        out.fail("%s: optimize() gives %s on re-used objects, %s on fresh ones" % (what, live, fresh))
                    live = fresh = None
            if live is not None or fresh is not None:
                compare(out, live, fresh, "%s (grid %d)" % (what, gi))
            touch(range(n_assets), gi)
            if fresh is not None and is_err(fresh):
                precondition_errors += 1
            if op in ("setup_portfolio", "setup_split") and not is_err(live):
                last = (live, p, gi, None, st_["interval"] if op == "setup_split" else None)
            if op in ("setup_portfolio", "setup_split") and not reloaded:
                last_setup = (dict(st_, k=k, use_frame=use_frame), live, cur)
        elif op == "optimize" and last is not None:
            r = eao_call(last[0].optimize)
            if not is_err(r) and not isinstance(r, str):
                last = (last[0], last[1], last[2], r, last[4])
            else:
                last = None
        elif op == "extract" and last is not None and last[3] is not None:
            # the tables for the same solution vector, from the re-used objects and from fresh ones set up the same way
            lo = eao_call(extract_output, live_pf, last[0], last[3], last[1])
            gi_, split_ = last[2], last[4]
            fpf = Portfolio(build_assets(cur))
            fg = build.build_grid(spec["grids"][gi_])
            fp = price_container(spec, gi_, isinstance(last[1], pd.DataFrame))
            if split_:
                fop = eao_call(fpf.setup_split_optim_problem, fp, fg, interval_size=split_)
            else:
                fop = eao_call(fpf.setup_optim_problem, fp, fg)
            fo = eao_call(extract_output, fpf, fop, last[3], fp) if not is_err(fop) else fop
            if is_err(lo) != is_err(fo):
                out.fail("%s: extract_output %s on the re-used objects, %s on fresh ones"
                         % (what, "raises " + lo.short() if is_err(lo) else "works", "raises " + fo.short() if is_err(fo) else "works"))
            elif not is_err(lo):
                for tab in ("dispatch", "DCF"):
                    a_, b_ = lo[tab], fo[tab]
                    if list(a_.columns) != list(b_.columns) or len(a_.index) != len(b_.index) or not (a_.index == b_.index).all():
                        out.fail("%s: %s table of the re-used objects has other columns / time points than that of fresh objects (first point %s vs %s)"
                                 % (what, tab, a_.index[0] if len(a_.index) else None, b_.index[0] if len(b_.index) else None))
                    elif not np.allclose(a_.values.astype(float), b_.values.astype(float), rtol=1e-9, atol=1e-9, equal_nan=True):
                        out.fail("%s: %s table differs between re-used and fresh objects for the same solution" % (what, tab))
                out.label("extract_compared")
        elif op == "setup_inner":
            # the portfolio wrapped by a structured asset, used on its own
            ks = [j for j in range(n_assets) if spec["assets"][j]["type"] == "structured" and j not in reloaded]
            if ks:
                j = ks[k % len(ks)]
                p = prices_for(gi, False)
                live = eao_call(live_assets[j].portfolio.setup_optim_problem, p, live_grids[gi])
                fresh = eao_call(build_assets(cur)[j].portfolio.setup_optim_problem, price_container(spec, gi, False),
                                 build.build_grid(spec["grids"][gi]))
                compare(out, live, fresh, "%s (inner portfolio of %s, grid %d)" % (what, spec["assets"][j]["name"], gi))
                touch([j], gi)
        elif op == "json":
            # the parameters of an asset, as saved, are those of a fresh asset whatever was set up before
            sl = eao_call(serialization.to_json, live_assets[k])
            sf = eao_call(serialization.to_json, build_assets(cur)[k])
            if not is_err(sl) and not is_err(sf):
                # a wrapped portfolio legitimately remembers the last grid it was set up with
                sl, sf = strip_grids(sl), strip_grids(sf)
            if not is_err(sl) and not is_err(sf) and sl != sf and k not in reloaded:
                d = [(x.strip(), y.strip()) for x, y in zip(sl.splitlines(), sf.splitlines()) if x != y][:2]
                out.fail("%s: parameters of asset %s changed by earlier set-ups (saved JSON differs from a fresh asset's: %s)"
                         % (what, spec["assets"][k]["name"], d))
            if is_err(sl) and not is_err(sf):
                out.fail("%s: to_json of asset %s raises %s after earlier set-ups" % (what, spec["assets"][k]["name"], sl.short()))
        elif op == "reload":
            s = eao_call(serialization.to_json, live_assets[k])
            if is_err(s):
                fs = eao_call(serialization.to_json, build_assets(cur)[k])
                if not is_err(fs):
                    out.fail("%s: to_json of asset %s raises %s after earlier set-ups, works on a fresh asset"
                             % (what, spec["assets"][k]["name"], s.short()))
                continue
            o2 = eao_call(serialization.load_from_json, s)
            if is_err(o2):
                fs = eao_call(serialization.to_json, build_assets(cur)[k])
                fo = eao_call(serialization.load_from_json, fs) if not is_err(fs) else fs
                if not is_err(fo):
                    out.fail("%s: asset %s saved after earlier set-ups cannot be loaded (%s)" % (what, spec["assets"][k]["name"], o2.short()))
                continue
            live_assets[k] = o2
            live_pf = Portfolio(live_assets)
            if k in touched:
                reloaded.add(k)
        # price containers untouched?
        for key, cont in live_prices.items():
            if not same_snapshot(snapshot(cont), pristine[key]):
                out.fail("%s altered the caller's price data (grid %d, %s)" % (what, key[0], "DataFrame" if key[1] else "dict"))
                break
        if out.violations:
            return out
    if spec.get("pristine") and last_setup is not None and not out.violations:
        pristine_compare(out, dict(spec, assets=last_setup[2]["assets"]), last_setup[0], last_setup[1])
    out.label("precondition_errors" if precondition_errors else None, "history:interesting" if interesting else "history:plain")
    out.nontrivial = interesting and precondition_errors == 0
    return out
