"""C06  Plant/CHP unit commitment: runtime, downtime, ramps, starts, heat and fuel."""
import itertools

import numpy as np
import scipy.sparse as sp
from hypothesis import strategies as st

from .. import core, gen, build, obs, lpkit, refmodel, uc
from .. import timeline as tl
from ..core import Outcome, is_err, eao_call

ID = "C06"
LEVEL = "exploration"
EXAMPLES = {"quick": 3000, "thorough": 60000}
RULE = ("(1) enumerated: parameter grid min runtime 0..4 x min downtime 0..4 x initial state (off for 0..3 / running "
        "for 1..3 steps) x start costs on/off x {Plant, CHP} x grid {h/h, 15min/h} x ALL 2^T on/off patterns "
        "(T=5 quick, T=5..8 thorough): pattern pinned through the bounds of the on-variables of the stand-alone "
        "problem, MILP feasibility of EAO's own rows by scipy-HiGHS, oracle = runtime/downtime automaton; "
        "EAO-feasible <=> automaton accepts. (2) generated points: parameters (ramp, last dispatch, capacities, heat "
        "share, conversion factor, exact monotone start/shutdown profiles, in a third of the CHP profiles the documented heat bounds per profile step for one or both ramps), an on/off pattern and an output vector "
        "built step by step from boundary values {0,min,max,prev,prev+-ramp,prev+-ramp+-eps,profile value}; on/off "
        "and output pinned, EAO-feasible <=> predicate of the statement. (3) end to end: Plant/CHP + markets (+ fuel "
        "market) optimised through the real pipeline: returned solution satisfies automaton and predicate, start flag "
        "at every off->on transition and nowhere else when a spurious flag costs money, heat <= share x power, heat inside the heat band of its profile step, fuel "
        "node dispatch = -(v/eff + consumption*dt*on + start_fuel*start), optimum = brute force over all accepted "
        "patterns of an independent LP (T <= 6). Non-trivial: (1) every (parameter set, pattern) pair is distinct; "
        "counted are pairs where a runtime/downtime/initial-state limit decides (pattern rejected, or accepted with a "
        "transition); (2)/(3) pattern or solution contains a transition and a ramp, runtime or downtime limit is "
        "binding or violated by the candidate. Distinct = distinct spec hash.")
RULE += (" In a third of the cases with profiles the profiles are re-expressed in another ramp_freq: finer (k values per grid step whose mean is the step value), coarser (constant profiles lasting k grid steps per value) or an alias of the grid frequency ('60min' for 'h'); the oracle keeps speaking about grid steps.")
RULE += (' Start profiles of up to 4 steps; in half of the cases with a start profile of 3-4 steps the horizon begins inside it (unit started one step before).')
ASSUMPTIONS = ["durations are drawn at half-step offsets so EAO's ceil() conversion to steps is unambiguous",
               "start/shutdown profiles monotone, exact (upper omitted or equal) or a band [lower, upper], as lists or float arrays; uniform step length; ramp_freq = grid freq",
               "heat bounds of a profile step are read as in the docstring (bounds of the heat dispatch in that step); in the pinned-point part a candidate "
               "fixes the virtual output and is expected feasible iff some heat value within the band leaves power >= 0 and heat <= share x power",
               "off before the horizon implies last_dispatch = 0; running before implies min <= last dispatch <= max; profile values within [0, max capacity]",
               "Plant/CHP wacc = 0 (EAO does not discount running and start costs)",
               "scipy-HiGHS milp (presolve off) decides feasibility of EAO's rows; SCIP solves EAO's MIP end to end"]
SHRINK_BUDGET = {"quick": 150, "thorough": 600}

GRIDS = {"hh": {"start": "2021-01-30 00:00", "freq": "h", "mtu": "h", "tz": None},
         "qh": {"start": "2021-06-15 06:00", "freq": "15min", "mtu": "h", "tz": "UTC"},
         "hd": {"start": "2021-12-31 18:00", "freq": "h", "mtu": "d", "tz": None}}


def dur(k, dt0):
    """duration in main time units that EAO converts to k steps"""
    return 0 if k <= 0 else (k - 0.5) * dt0


# ====================================================================== (1) exhaustive on/off language
def uc_asset(kind, MR, MD, init, start_costs, dt0, ramp_q=None):
    tar = init[1] if init[0] == "on" else 0
    tao = init[1] if init[0] == "off" else 0
    a = {"type": kind, "name": "u", "nodes": ["np"] if kind == "plant" else ["np", "nh"], "price": "p0",
         "min_cap": 1.0 / dt0, "max_cap": 4.0 / dt0, "extra_costs": 0.0, "wacc": 0.0,
         "min_runtime": dur(MR, dt0), "min_downtime": dur(MD, dt0),
         "time_already_running": dur(tar, dt0), "time_already_off": dur(tao, dt0),
         "start_costs": float(start_costs), "last_dispatch": (2.0 / dt0) if tar else 0.0,
         "_uc": {"MR": MR, "MD": MD, "tar": tar, "tao": tao}}
    if kind == "chp":
        a["conversion_factor_power_heat"] = 0.5
        a["max_share_heat"] = 1.0
    return a


def on_vars(op):
    mp = op.mapping
    m = mp[mp["var_name"] == "bool_on"]
    m = m[~m.index.duplicated(keep="first")].sort_values("time_step")
    return m.index.values.astype(int)


def _enum_job(args):
    kind, MR, MD, init, sc, gv, T = args
    g = dict(GRIDS[gv], T=T)
    dt0 = float(tl.dt(g)[0])
    a = uc_asset(kind, MR, MD, init, sc, dt0)
    spec = {"grid": g, "prices": {"p0": [1.0] * T}, "assets": [a]}
    res = {"n": 0, "nontrivial": 0, "fail": None, "rejected": 0}
    assets, _ = build.build_assets(spec)
    op = eao_call(assets[0].setup_optim_problem, build.build_prices(spec), build.build_grid(g))
    if is_err(op):
        res["fail"] = (spec, ["set-up of a valid %s raised %s" % (kind, op.short())])
        return res
    idx = on_vars(op)
    if len(idx) != T:
        res["fail"] = (spec, ["%d on-variables for %d steps" % (len(idx), T)])
        return res
    raw = lpkit.from_op(op)
    u = a["_uc"]
    for pat in itertools.product([0, 1], repeat=T):
        r = raw.copy()
        r.l[idx] = np.maximum(r.l[idx], pat)
        r.u[idx] = np.minimum(r.u[idx], pat)
        if np.any(r.l > r.u):
            feas = False
        else:
            feas = lpkit.feasible(r)
        why = uc.accepts(pat, u["MR"], u["MD"], u["tar"], u["tao"])
        res["n"] += 1
        if why is not None:
            res["rejected"] += 1
        if why is not None or uc.transitions(pat, u["tar"] > 0) or (u["tar"] > 0 and 0 in pat):
            res["nontrivial"] += 1
        if feas is None:
            continue
        if feas != (why is None):
            s2 = dict(spec, kind="pattern", pattern=list(pat))
            if feas:
                msg = "on/off pattern %s is admitted by EAO but violates: %s" % (list(pat), why)
            else:
                msg = "on/off pattern %s respects runtime/downtime/initial state but EAO excludes it" % (list(pat),)
            res["fail"] = (s2, [msg + " (MR=%d MD=%d already running %d / off %d steps)" % (u["MR"], u["MD"], u["tar"], u["tao"])])
            return res
    return res


def exhaustive(tier, seed, pool):
    Ts = [5] if tier == "quick" else [5, 6, 7, 8]
    gvs = ["hh"] if tier == "quick" else ["hh", "qh"]
    jobs = []
    inits = [("off", k) for k in range(4)] + [("on", k) for k in (1, 2, 3)]
    for T in Ts:
        for gv in gvs:
            for kind in ("plant", "chp"):
                for MR in range(5):
                    for MD in range(5):
                        for init in inits:
                            if MD > 1 and init == ("off", 0):
                                continue     # documented assertion: exactly one of already off/running positive
                            for sc in (0, 1):
                                if tier == "quick" and (MR + MD + sc + (kind == "chp")) % 2:
                                    continue
                                jobs.append((kind, MR, MD, init, sc, gv, T))
    out = {"evaluations": 0, "distinct_nontrivial": 0, "failures": [], "samples": [], "parameter_sets": len(jobs),
           "patterns_rejected_by_automaton": 0, "exhaustive": True,
           "note": "all 2^T patterns for T in %s on grids %s" % (Ts, gvs)}
    for r in pool.imap_unordered(_enum_job, jobs, chunksize=4):
        out["evaluations"] += r["n"]
        out["distinct_nontrivial"] += r["nontrivial"]
        out["patterns_rejected_by_automaton"] += r["rejected"]
        if r["fail"] is not None:
            out["failures"].append(r["fail"])
    out["samples"] = [{"kind": "pattern", "asset": uc_asset("plant", 3, 2, ("off", 1), 1, 1.0), "pattern": [0, 1, 1, 1, 0]}]
    return out


# ====================================================================== generators for (2) and (3)
@st.composite
def _unit(draw, gv, T, profiles=False, allow_fuel=True):
    g = dict(GRIDS[gv], T=T)
    dt0 = float(tl.dt(g)[0])
    kind = draw(st.sampled_from(["plant", "plant", "chp"]))
    maxq = draw(st.sampled_from([3.0, 4.0, 6.0]))
    minq = draw(st.sampled_from([0.0, 1.0, 1.0, 2.0, 2.0, 3.0]))
    MR = draw(st.sampled_from([0, 0, 2, 3]))
    MD = draw(st.sampled_from([0, 0, 2, 3]))
    init = draw(st.sampled_from([("off", 1), ("off", 2), ("on", 1), ("on", 2), ("on", 4)]))
    if MD <= 1 and init[0] == "off" and draw(st.booleans()):
        init = ("off", 0)
    tar = init[1] if init[0] == "on" else 0
    tao = init[1] if init[0] == "off" else 0
    rampq = draw(st.sampled_from([None, None, 0.25, 0.5, 1.0, 1.0, 1.5, 2.0, 3.0, 8.0]))
    lastq = draw(st.sampled_from([minq, maxq, (minq + maxq) / 2, max(minq, 1.0)])) if tar else 0.0
    a = {"type": kind, "name": "u", "nodes": ["np"] if kind == "plant" else ["np", "nh"], "price": None,
         "min_cap": minq / dt0, "max_cap": maxq / dt0, "extra_costs": draw(st.sampled_from([0.0, 0.0, 0.25])),
         "wacc": 0.0, "min_runtime": dur(MR, dt0), "min_downtime": dur(MD, dt0),
         "time_already_running": dur(tar, dt0), "time_already_off": dur(tao, dt0),
         "start_costs": draw(st.sampled_from([0.0, 0.0, 1.0, 3.0])),
         "running_costs": draw(st.sampled_from([0.0, 0.5, 2.0])) / dt0,
         "last_dispatch": lastq / dt0}
    if rampq is not None:
        a["ramp"] = rampq / dt0
    meta = {"MR": MR, "MD": MD, "tar": tar, "tao": tao, "SRT": 0, "SDT": 0, "minq": minq, "maxq": maxq,
            "rampq": rampq, "lastq": lastq, "dt0": dt0}
    if draw(st.integers(0, 5)) == 0:   # capacities as vectors (interval form)
        cut = draw(st.integers(1, max(1, T - 1)))
        f = draw(st.sampled_from([0.5, 0.75]))
        a["max_cap"] = {"iv": [[-50, cut, maxq / dt0], [cut, T + 50, max(minq, maxq * f) / dt0]]}
        meta["max_series"] = [maxq if t < cut else max(minq, maxq * f) for t in range(T)]
    if kind == "chp":
        a["conversion_factor_power_heat"] = draw(st.sampled_from([1.0, 0.5, 0.25]))
        a["max_share_heat"] = draw(st.sampled_from([None, 1.0, 0.5, 2.0]))
        if a["max_share_heat"] is None:
            del a["max_share_heat"]
        if draw(st.integers(0, 4)) == 0:
            cut = draw(st.integers(1, max(1, T - 1)))
            a["conversion_factor_power_heat"] = {"iv": [[-50, cut, 0.5], [cut, T + 50, 1.0]]}
    if allow_fuel and draw(st.booleans()):
        a["nodes"] = a["nodes"] + ["nf"]
        a["fuel_efficiency"] = draw(st.sampled_from([1.0, 0.5, 0.75]))
        a["consumption_if_on"] = draw(st.sampled_from([0.0, 0.25])) / dt0
        a["start_fuel"] = draw(st.sampled_from([0.0, 1.0]))
    # parameters with a documented default given as interval data that cover only part of the horizon
    for key in ("consumption_if_on", "start_fuel", "running_costs", "start_costs"):
        if key in a and a[key] and draw(st.integers(0, 3)) == 0:
            cut = draw(st.integers(1, max(1, T - 1)))
            a[key] = {"iv": [[cut, T + 50, a[key]]] if draw(st.booleans()) else [[-50, cut, a[key]]]}
    if profiles and minq > 0:
        # exact, monotone profiles below the minimum capacity
        # profiles: exact (upper bounds omitted = documented default, or given equal) or a band [lower, upper];
        # as lists or float arrays
        a["profile_form"] = draw(st.sampled_from(["list", "array"]))
        for which, key, pool in (("start", "SRT", [0.5, 0.75, 1.0, 1.0]), ("shutdown", "SDT", [0.25, 0.5, 0.75, 1.0])):
            if not draw(st.booleans()):
                continue
            n = draw(st.sampled_from([1, 1, 2, 2, 3, 3, 4] if which == "start" else [1, 1, 2, 2, 3]))
            vals = sorted(draw(st.lists(st.sampled_from(pool), min_size=n, max_size=n)))
            band = draw(st.sampled_from([0.0, 0.0, 0.25, 0.25]))
            cap_ = min(meta.get("max_series") or [maxq])
            his = [min((v + band) * minq, cap_) for v in vals]     # profiles stay within the capacity
            a["%s_ramp_lower_bounds" % which] = [v * minq / dt0 for v in vals]
            if band or draw(st.integers(0, 2)) == 0:      # exact profiles mostly leave the upper bounds at their default
                a["%s_ramp_upper_bounds" % which] = [h / dt0 for h in his]
            meta[key] = n
            meta["start_prof" if which == "start" else "shut_prof"] = \
                [v * minq if not band else [v * minq, h] for v, h in zip(vals, his)]
            if kind == "chp" and draw(st.integers(0, 2)) == 0:
                # documented heat bounds per profile step (one side alone or both): [lower, upper] heat volumes
                cfm = 1.0 if isinstance(a["conversion_factor_power_heat"], dict) else a["conversion_factor_power_heat"]
                hh = []
                for h in his:
                    up_h = draw(st.sampled_from([0.25, 0.5, 1.0])) * h / cfm
                    lo_h = draw(st.sampled_from([0.0, 0.0, 0.5, 1.0])) * up_h
                    hh.append([lo_h, up_h])
                a["%s_ramp_lower_bounds_heat" % which] = [x[0] / dt0 for x in hh]
                a["%s_ramp_upper_bounds_heat" % which] = [x[1] / dt0 for x in hh]
                meta["start_prof_heat" if which == "start" else "shut_prof_heat"] = hh
    if meta["SRT"] >= 3 and draw(st.booleans()):
        # the horizon begins inside the start ramp with at least two profile steps still to come (the unit was started
        # one step before the horizon and delivered the first profile value there)
        meta["tar"], meta["tao"] = 1, 0
        a["time_already_running"], a["time_already_off"] = dur(1, dt0), 0
        meta["lastq"] = uc.prof_range(meta["start_prof"][0])[0]
        a["last_dispatch"] = meta["lastq"] / dt0
    if meta["SRT"] or meta["SDT"]:
        a["ramp_freq"] = g["freq"]      # profiles are given per grid step
        if draw(st.booleans()):
            # ramps around the profile values (so that 'profile takes precedence' decides)
            pool = []
            if meta["SRT"]:
                sp_ = [uc.prof_range(x)[0] for x in meta["start_prof"]]
                pool += [minq - sp_[-1], minq - sp_[-1] + 0.5, sp_[0] - 0.25, sp_[0]]
            if meta["SDT"]:
                sh_ = [uc.prof_range(x)[0] for x in meta["shut_prof"]]
                pool += [minq - sh_[-1], sh_[0], sh_[0] - 0.25]
            pool = [x for x in pool if x > 0]
            if pool:
                rampq = draw(st.sampled_from(pool))
                meta["rampq"] = rampq
                a["ramp"] = rampq / dt0
    if meta["SRT"] or meta["SDT"]:
        _refreq(draw, a, meta, g)
    a["_uc"] = meta
    return g, a


FINER = {"h": [(2, "30min"), (4, "15min"), (1, "60min")], "15min": [(3, "5min"), (1, "900s")]}
COARSER = {"h": [(2, "2h"), (3, "3h")], "15min": [(2, "30min"), (4, "h")]}
OFFS = {1: [0.0], 2: [-1.0, 1.0], 3: [-1.0, 0.0, 1.0], 4: [-2.0, -1.0, 1.0, 2.0]}
PROFILE_KEYS = ("_ramp_lower_bounds", "_ramp_upper_bounds", "_ramp_lower_bounds_heat", "_ramp_upper_bounds_heat")


def _refreq(draw, a, meta, g):
    """Re-express the start / shutdown profiles in another `ramp_freq` (documented: 'the i-th element ... at i
    timesteps of freq ramp_freq').  The oracle keeps speaking about grid steps (meta):
    finer   - ramp_freq divides the grid step into k parts: k values per grid step whose mean is the value of the
              grid step (a profile is a rate; the volume of the grid step is what the step-wise model can hold);
    coarser - ramp_freq = k grid steps, all values of a profile equal: the profile lasts k times as many grid steps
              at the same rate (any interpolation of a constant is that constant);
    a ramp_freq that only spells the grid frequency differently ('60min' for 'h') changes nothing."""
    mode = draw(st.sampled_from([None, None, None, "finer", "finer", "coarser"]))
    if mode is None:
        return
    dt0 = meta["dt0"]
    if mode == "finer":
        k, name = draw(st.sampled_from(FINER[g["freq"]]))
        for which in ("start", "shutdown"):
            n = meta["SRT" if which == "start" else "SDT"]
            if not n:
                continue
            deltas = []
            for i in range(n):
                floor_ = min(a[which + key][i] for key in PROFILE_KEYS if a.get(which + key) is not None)
                d = draw(st.sampled_from([0.0, 0.0625, 0.125, 0.25])) / dt0
                if floor_ - max(OFFS[k]) * d < 0:
                    d = 0.0
                deltas.append(d)
            for key in PROFILE_KEYS:
                if a.get(which + key) is not None:
                    a[which + key] = [a[which + key][i] + o * deltas[i] for i in range(n) for o in OFFS[k]]
        a["ramp_freq"] = name
        meta["ramp_freq_mode"] = "finer:%d" % k if k > 1 else "alias"
    else:
        const = True
        for which in ("start", "shutdown"):
            for key in PROFILE_KEYS:
                v = a.get(which + key)
                if v is not None and len(set(v)) > 1:
                    const = False
        if not const:
            return
        k, name = draw(st.sampled_from(COARSER[g["freq"]]))
        if (meta["SRT"] + meta["SDT"]) * k > 6:
            return
        for which, nk, pk, hk in (("start", "SRT", "start_prof", "start_prof_heat"), ("shutdown", "SDT", "shut_prof", "shut_prof_heat")):
            if meta[nk]:
                meta[nk] *= k
                meta[pk] = [x for x in meta[pk] for _ in range(k)]
                if meta.get(hk):
                    meta[hk] = [x for x in meta[hk] for _ in range(k)]
        a["ramp_freq"] = name
        meta["ramp_freq_mode"] = "coarser:%d" % k


@st.composite
def _e2e(draw):
    gv = draw(st.sampled_from(["hh", "hh", "qh", "hd"]))
    T = draw(st.integers(2, 8))
    g, a = draw(_unit(gv, T, profiles=draw(st.integers(0, 3)) == 0))
    dt0 = a["_uc"]["dt0"]
    pw = draw(st.lists(st.sampled_from([0.0, 0.5, 1.0, 2.0, 4.0, 8.0]), min_size=T, max_size=T))
    prices = {"ppow": pw, "pheat": draw(st.lists(st.sampled_from([0.0, 1.0, 3.0]), min_size=T, max_size=T)),
              "pfuel": [draw(st.sampled_from([0.5, 1.0, 2.0]))] * T, "phi": [20.0] * T}
    cap = 32.0 / dt0
    assets = [a,
              {"type": "simple", "name": "sell_p", "nodes": ["np"], "price": "ppow", "min_cap": -cap, "max_cap": 0.0, "wacc": 0.0},
              {"type": "simple", "name": "buy_p", "nodes": ["np"], "price": "phi", "min_cap": 0.0, "max_cap": cap, "wacc": 0.0}]
    if a["type"] == "chp":
        assets.append({"type": "simple", "name": "sell_h", "nodes": ["nh"], "price": "pheat", "min_cap": -cap, "max_cap": 0.0, "wacc": 0.0})
    if "nf" in a["nodes"]:
        assets.append({"type": "simple", "name": "buy_f", "nodes": ["nf"], "price": "pfuel", "min_cap": 0.0, "max_cap": cap, "wacc": 0.0})
    return {"kind": "e2e", "grid": g, "prices": prices, "assets": assets}


@st.composite
def _point(draw):
    gv = draw(st.sampled_from(["hh", "hh", "qh"]))
    T = draw(st.integers(2, 7))
    g, a = draw(_unit(gv, T, profiles=draw(st.booleans()), allow_fuel=False))
    m = a["_uc"]
    mode = draw(st.integers(0, 9))
    if mode < 6:
        # a pattern the automaton accepts: segments at least as long as the obligations
        MRe = max(1, m["MR"] + m["SRT"] + m["SDT"])
        MD = max(1, m["MD"])
        state = 1 if m["tar"] > 0 else 0
        need = max(0, MRe - m["tar"]) if state else (max(0, MD - m["tao"]) if m["tao"] > 0 else 0)
        pattern = []
        first = True
        while len(pattern) < T:
            lo_len = max(need, 0 if first else 1)
            ln = draw(st.integers(lo_len, max(lo_len, min(T, lo_len + 3))))
            pattern += [state] * ln
            state = 1 - state
            need = MRe if state else MD
            first = False
        pattern = pattern[:T]
    elif mode < 8:
        k = draw(st.integers(0, T))
        l = draw(st.integers(k, T))
        pattern = [1 if k <= t < l else 0 for t in range(T)]
        if draw(st.booleans()):
            pattern = [1 - x for x in pattern]
    else:
        pattern = draw(st.lists(st.integers(0, 1), min_size=T, max_size=T))
    choice = draw(st.lists(st.integers(0, 11), min_size=T, max_size=T))
    if m["SDT"] and any(isinstance(x, list) for x in m.get("shut_prof", [])) and draw(st.integers(0, 2)) == 0:
        # a shutdown inside the horizon that uses the upper edge of a profile band: on from the start (or from step 1
        # when the unit was off), off for the last step(s)
        first_on = 0 if m["tar"] > 0 or m["tao"] >= max(1, m["MD"]) or m["tao"] == 0 else min(T - 1, max(0, m["MD"] - m["tao"]))
        run = max(1, m["MR"] + m["SRT"] + m["SDT"] - (m["tar"] if first_on == 0 else 0))
        if first_on + run < T:
            k = draw(st.integers(first_on + run, T - 1))
            pattern = [1 if first_on <= t < k else 0 for t in range(T)]
            choice = [1] * T
    return {"kind": "point", "grid": g, "prices": {"p0": [1.0] * T}, "assets": [a], "pattern": pattern, "choice": choice}


def strategy(tier):
    return st.one_of(_e2e(), _point(), _point())


# ====================================================================== shared extraction
def mr_eff(m):
    """documented: start and shutdown ramp time do not count towards the minimum runtime"""
    return m["MR"] + m.get("SRT", 0) + m.get("SDT", 0)


def unit_params(a, T):
    m = a["_uc"]
    mx = np.array(m.get("max_series") or [m["maxq"]] * T, float)
    p = {"min": np.full(T, m["minq"]), "max": mx, "ramp": m["rampq"], "last": m["lastq"], "was_on": m["tar"] > 0,
         "tar": m["tar"], "SRT": m["SRT"], "SDT": m["SDT"], "start_prof": m.get("start_prof", []),
         "shut_prof": m.get("shut_prof", []), "start_prof_heat": m.get("start_prof_heat"),
         "shut_prof_heat": m.get("shut_prof_heat")}
    return p


def series_of(a, key, T, default):
    v = a.get(key, default)
    if v is None:
        return None
    if isinstance(v, dict):
        out = np.full(T, np.nan)
        for s, e, val in v["iv"]:
            out[max(0, s):min(T, e)] = val
        if default is not None:
            out[np.isnan(out)] = default      # documented default where the interval data are silent
        return out
    return np.full(T, float(v))


def unit_vars(op, a, T):
    """variable numbers per step: power, heat (or None), on, start"""
    mp = op.mapping
    m = mp[mp["asset"] == a["name"]]
    out = {}
    chp = a["type"] == "chp"
    for key, cond in (("pw", (m["var_name"] == "disp") & (m["node"] == a["nodes"][0])),
                      ("ht", (m["var_name"] == "disp") & (m["node"] == a["nodes"][1])) if chp else ("ht", None),
                      ("on", m["var_name"] == "bool_on"), ("st", m["var_name"] == "bool_start"),
                      ("sd", m["var_name"] == "bool_shutdown")):
        if cond is None:
            out[key] = None
            continue
        mm = m[cond]
        mm = mm[~mm.index.duplicated(keep="first")]
        if len(mm) == 0:
            out[key] = None
            continue
        arr = np.full(T, -1, int)
        for i, t in zip(mm.index.values, mm["time_step"].values):
            arr[int(t)] = int(i)
        out[key] = arr
    return out


# ====================================================================== (3) end to end
def check_e2e(spec, out):
    g = spec["grid"]
    T = g["T"]
    a = spec["assets"][0]
    m = a["_uc"]
    dtv = tl.dt(g)
    out.label("e2e", "unit:" + a["type"], "fuel" if "nf" in a["nodes"] else None,
              ("ramp_freq:" + m["ramp_freq_mode"]) if m.get("ramp_freq_mode") else None)
    r = eao_call(obs.Run, spec)
    if is_err(r):
        return out.fail("construction of a valid %s raised %s" % (a["type"], r.short()))
    if is_err(r.op):
        return out.fail("set-up of a valid %s raised %s" % (a["type"], r.op.short()))
    res = r.optimize()
    if is_err(res):
        return out.drop("optimize_error:" + res.kind)
    out.label(obs.status_label(res))
    if isinstance(res, str):
        return out.drop("no_solution")
    x = np.asarray(res.x, float)
    vs = unit_vars(r.op, a, T)
    cf = series_of(a, "conversion_factor_power_heat", T, 1.0) if a["type"] == "chp" else None
    power = x[vs["pw"]]
    heat = x[vs["ht"]] if vs["ht"] is not None else None
    v = power + (cf * heat if heat is not None else 0.0)
    p = unit_params(a, T)
    tol = 1e-5 * (1 + m["maxq"])
    if vs["on"] is not None:
        on = np.round(x[vs["on"]]).astype(int)
        if np.abs(x[vs["on"]] - on).max() > 1e-6:
            out.fail("on-variables not integral: %s" % x[vs["on"]])
    else:
        on = np.ones(T, int)
        out.label("no_on_variables")
        p["min"] = np.zeros(T)
    why = uc.accepts(on, mr_eff(m), m["MD"], m["tar"], m["tao"]) if vs["on"] is not None else None
    if why is not None:
        out.fail("returned on/off pattern %s violates: %s" % (list(on), why))
    share = series_of(a, "max_share_heat", T, None) if a["type"] == "chp" else None
    p["share"] = share
    for msg in uc.point_violations(p, on, v, heat, power, tol=tol):
        out.fail("returned solution: " + msg)
    trans = uc.transitions(on, m["tar"] > 0) if vs["on"] is not None else []
    scv = series_of(a, "start_costs", T, 0.0)
    sfv = series_of(a, "start_fuel", T, 0.0) if "nf" in a["nodes"] else np.zeros(T)
    sc = float(scv.max())
    start = np.zeros(T, int)
    if vs["st"] is not None:
        start = np.round(x[vs["st"]]).astype(int)
        for t in trans:
            if start[t] != 1:
                out.fail("no start flagged at the off->on transition at step %d (on=%s start=%s)" % (t, list(on), list(start)))
        for t in range(T):
            if start[t] == 1 and t not in trans and (scv[t] > 0 or sfv[t] > 0):
                out.fail("start flagged (and charged) at step %d without off->on transition (on=%s)" % (t, list(on)))
    elif any(scv[t] > 0 or sfv[t] > 0 for t in trans):
        out.fail("start costs / start fuel given but the problem has no start variables")
    # fuel identity from the reported dispatch
    o = r.output()
    if is_err(o):
        return out.fail("extract_output raised " + o.short())
    if "nf" in a["nodes"]:
        col = build.disp_col(spec, a["name"], "nf")
        eff = series_of(a, "fuel_efficiency", T, 1.0)
        cons = series_of(a, "consumption_if_on", T, 0.0)
        exp = -(v / eff + cons * dtv * (on if vs["on"] is not None else 0) + sfv * start)
        got = o["dispatch"][col].values.astype(float)
        if np.abs(got - exp).max() > 10 * tol:
            t = int(np.argmax(np.abs(got - exp)))
            out.fail("fuel drawn at step %d is %g, expected output/eff + running + start consumption = %g" % (t, got[t], exp[t]))
    # brute force reference optimum
    if T <= 6 and vs["on"] is not None and not out.violations and not (m["SRT"] or m["SDT"]):
        best = None
        for pat in itertools.product([0, 1], repeat=T):
            if uc.accepts(pat, mr_eff(m), m["MD"], m["tar"], m["tao"]) is not None:
                continue
            s2 = dict(spec, _uc={a["name"]: list(pat)})
            ref = refmodel.Ref(s2)
            if ref.unsupported:
                raise core.HarnessError("reference does not cover: " + ref.unsupported)
            st_, x_, v_ = lpkit.solve(ref.raw())
            if st_ == "optimal":
                val = v_ - ref.offset
                if best is None or val > best[0]:
                    best = (val, pat)
        if best is None:
            out.fail("EAO returns a solution but no accepted pattern is feasible in the reference model")
        else:
            V = float(res.value)
            if abs(V - best[0]) > core.tol_val(best[0], True) + 1e-6:
                out.fail("optimum %.9g differs from brute-force reference %.9g (best pattern %s, EAO pattern %s)"
                         % (V, best[0], list(best[1]), list(on)))
            out.label("brute_force_compared")
    binding = bool(trans) or (m["tar"] > 0 and 0 in on)
    out.nontrivial = binding and (m["MR"] > 1 or m["MD"] > 1 or m["rampq"] is not None or sc > 0)


# ====================================================================== (2) point membership
def check_point(spec, out):
    g = spec["grid"]
    T = g["T"]
    a = spec["assets"][0]
    m = a["_uc"]
    pat = list(spec["pattern"])
    out.label("point", "unit:" + a["type"], "profiles" if (m["SRT"] or m["SDT"]) else "no_profiles",
              ("ramp_freq:" + m["ramp_freq_mode"]) if m.get("ramp_freq_mode") else None)
    built = eao_call(build.build_assets, spec)
    if is_err(built):
        return out.fail("construction of a valid %s raised %s" % (a["type"], built.short()))
    assets, _ = built
    op = eao_call(assets[0].setup_optim_problem, build.build_prices(spec), build.build_grid(g))
    if is_err(op):
        return out.fail("set-up of a valid %s raised %s" % (a["type"], op.short()))
    vs = unit_vars(op, a, T)
    p = unit_params(a, T)
    if vs["on"] is None:
        pat = [1] * T
        p["min"] = np.zeros(T)
        out.label("no_on_variables")
    role = uc.profile_role(pat, p["was_on"], p["SRT"], p["SDT"], p["tar"])
    # candidate output vector: per step the valid range under the statement is computed from the
    # previous value; most choices take a boundary / interior value of it, some step just outside
    v = np.zeros(T)
    prev = p["last"]
    rq = p["ramp"]
    eps = 0.125
    deviations = 0
    for t in range(T):
        c = spec["choice"][t]
        lo, hi = p["min"][t], p["max"][t]
        r = role[t]
        if not pat[t]:
            val = 0.0 if c < 10 else eps
            deviations += c >= 10
        elif r is not None:
            plo, phi = uc.prof_range((p["start_prof"] if r[0] == "start" else p["shut_prof"])[r[1]])
            val = {9: phi + eps, 10: max(0.0, plo - eps), 11: lo, 0: plo, 1: phi, 2: (plo + phi) / 2}.get(c, plo if c % 2 else phi)
            deviations += c >= 9
        else:
            L, U = lo, hi
            if rq is not None:
                L = max(L, prev - rq)
                U = min(U, prev + rq)
                nxt_off = t + 1 < T and not pat[t + 1]
                if nxt_off and not p["SDT"]:
                    U = min(U, rq)          # must be able to go off in the next step
            if L > U:
                val = lo
            elif c <= 2:
                val = L
            elif c <= 5:
                val = U
            elif c <= 7:
                val = (L + U) / 2
            elif c == 8:
                val = L - eps
            elif c == 9:
                val = U + eps
            elif c == 10:
                val = lo
            else:
                val = hi
            deviations += c >= 8
        v[t] = max(0.0, val)
        prev = v[t]
    out.label("deviations:%d" % min(deviations, 3))
    why = uc.accepts(pat, mr_eff(m), m["MD"], m["tar"], m["tao"]) if vs["on"] is not None else None
    amb = []
    msgs = uc.point_violations(p, pat, v, tol=1e-9, ambiguous=amb)
    cf = series_of(a, "conversion_factor_power_heat", T, 1.0) if a["type"] == "chp" else None
    if p.get("start_prof_heat") or p.get("shut_prof_heat"):
        # the candidate fixes the virtual output only: a heat value inside the documented heat band of the
        # profile step must exist with power = v - cf x heat >= 0 and heat <= share x power
        out.label("heat_profile")
        share = series_of(a, "max_share_heat", T, None)
        for t in range(T):
            r = role[t]
            if not pat[t] or r is None:
                continue
            hp = p.get("start_prof_heat" if r[0] == "start" else "shut_prof_heat")
            if not hp:
                continue
            lo_h, up_h = hp[r[1]]
            hmax = min(up_h, v[t] / cf[t])
            if share is not None:
                hmax = min(hmax, share[t] * v[t] / (1 + share[t] * cf[t]))
            if lo_h > hmax + 1e-9:
                msgs.append("step %d: heat band [%g,%g] of the %s profile cannot be met with virtual output %g" % (t, lo_h, up_h, r[0], v[t]))
    if amb and not msgs and why is None:
        return out.drop("ramp_into_shutdown_profile_unspecified")
    expect = (why is None) and not msgs
    raw = lpkit.from_op(op)
    if vs["on"] is not None:
        raw.l[vs["on"]] = np.maximum(raw.l[vs["on"]], pat)
        raw.u[vs["on"]] = np.minimum(raw.u[vs["on"]], pat)
    rows = sp.lil_matrix((T, raw.n))
    for t in range(T):
        rows[t, vs["pw"][t]] = 1.0
        if vs["ht"] is not None:
            rows[t, vs["ht"][t]] = cf[t]
    raw.add_rows(rows, v, "S" * T)
    if np.any(raw.l > raw.u):
        feas = False
    else:
        feas = lpkit.feasible(raw)
    if feas is None:
        return out.drop("reference_solver_undecided")
    trans = uc.transitions(pat, p["was_on"])
    out.label("expected_feasible" if expect else "expected_infeasible")
    if feas != expect:
        if feas:
            out.fail("EAO admits on=%s output=%s although: %s" % (pat, list(v), why or msgs[0]))
        else:
            out.fail("EAO excludes on=%s output=%s (last dispatch %g, ramp %s, min %g, max %s) which satisfies the statement"
                     % (pat, list(v), p["last"], rq, m["minq"], list(p["max"])))
    out.nontrivial = (bool(trans) or (p["was_on"] and 0 in pat)) and (rq is not None or m["MR"] > 1 or m["MD"] > 1 or bool(m["SRT"] or m["SDT"]))


def check(spec):
    out = Outcome()
    k = spec.get("kind")
    if k == "e2e":
        check_e2e(spec, out)
    elif k == "point":
        check_point(spec, out)
    elif k == "pattern":
        # replay of an enumerated case
        a = spec["assets"][0]
        u = a["_uc"]
        assets, _ = build.build_assets(spec)
        op = eao_call(assets[0].setup_optim_problem, build.build_prices(spec), build.build_grid(spec["grid"]))
        if is_err(op):
            return out.fail("set-up raised " + op.short())
        idx = on_vars(op)
        raw = lpkit.from_op(op)
        pat = spec["pattern"]
        raw.l[idx] = np.maximum(raw.l[idx], pat)
        raw.u[idx] = np.minimum(raw.u[idx], pat)
        feas = False if np.any(raw.l > raw.u) else lpkit.feasible(raw)
        why = uc.accepts(pat, u["MR"], u["MD"], u["tar"], u["tao"])
        if feas is not None and feas != (why is None):
            out.fail("on/off pattern %s: EAO feasible=%s, automaton: %s" % (pat, feas, why or "accepts"))
        out.nontrivial = True
    else:
        raise core.HarnessError("unknown kind " + str(k))
    return out
