"""C18  Reported nodal prices are marginal values of the optimum."""
import numpy as np
from hypothesis import strategies as st

from .. import core, gen, build, obs, lpkit
from ..core import Outcome, is_err

ID = "C18"
LEVEL = "exploration"
EXAMPLES = {"quick": 1000, "thorough": 20000}
RULE = ("Generated: LP portfolios (contracts with spread/takes, transports with efficiency, storages, multi-commodity "
        "contracts, order books, structured assets with internal nodes, scaled assets; adversarial node names in 25%; market pairs in 85%; in 1 of 4 split and 1 of 10 plain cases every asset is windowed away from a range of steps (no active asset there); a penalty-priced slack source (cost coefficient 3e6 or 1e8) in 1 of 8; 1-3 nodes; grids 2-12 steps x freq x unit x zone; wacc), "
        "monolithic or split, a (node, step) pair chosen among the nodal restrictions and an injection d in "
        "+-{0.05, 0.5, 2} (volumes per step are O(1) by construction). Oracle: the right-hand side of the nodal row "
        "located through map_nodal_restr is set to -d and the problem re-optimised by scipy-HiGHS: "
        "V(d) <= V(0) + price*d + tol (infeasible = -inf), where the price is read from "
        "extract_output()['prices']['nodal price: <node>'] at that step; both signs of d over the run. At kinks any "
        "supergradient passes. Non-trivial: price != 0 and V(d) != V(0). Distinct = distinct spec hash.")
ASSUMPTIONS = ["tolerance 4e-5*(1+|V|) + 1e-4*|d|*(1+|price|) (interior-point duals)",
               "scipy-HiGHS re-solves both V(0) and V(d) on EAO's own arrays"]

CLASSES = ["simple", "simple", "contract", "transport", "storage", "storage", "multi", "orderbook", "structured", "scaled"]


@st.composite
def _strategy(draw):
    spec = draw(gen.portfolios_all(classes=CLASSES, max_assets=4, with_markets=0.85))
    if draw(st.integers(0, 3)) == 0:
        gen.rename_nodes(draw, spec)
    T = spec["grid"]["T"]
    spec["split"] = draw(st.one_of(st.none(), st.none(), st.sampled_from(["6h", "12h", "d"])))
    if T >= 4 and draw(st.integers(0, 1 if spec["split"] else 9)) == 0:
        spec["gap"] = gen.make_gap(draw, spec)
    if draw(st.integers(0, 7)) == 0:
        # a penalty-priced slack source (cost coefficients far above the ordinary prices)
        n0 = sorted(build.all_nodes(spec))[0]
        spec["assets"].append({"type": "simple", "name": "slack", "nodes": [n0], "price": None, "min_cap": 0.0,
                               "max_cap": 4.0, "extra_costs": draw(st.sampled_from([3e6, 1e8])), "wacc": 0.0})
        if spec.get("gap"):
            spec["assets"][-1]["start"] = spec["gap"][1]      # keeps the gap empty
        spec["penalty"] = True
    spec["pick"] = draw(st.integers(0, 10 ** 6))
    spec["d"] = draw(st.sampled_from([0.05, 0.5, 2.0])) * draw(st.sampled_from([1, -1]))
    return spec


def strategy(tier):
    return _strategy()


def check(spec):
    out = Outcome()
    split = spec.get("split")
    out.label("d>0" if spec["d"] > 0 else "d<0", "build:split" if split else "build:monolithic",
              "gap" if spec.get("gap") else None, "penalty_asset" if spec.get("penalty") else None)
    r = obs.Run(spec, split=split)
    if is_err(r.op):
        return out.drop("setup_error:" + r.op.kind)
    if r.is_mip:
        return out.drop("mip")
    res = r.optimize()
    if is_err(res) or isinstance(res, str):
        return out.drop("no_solution")
    o = r.output()
    if is_err(o):
        return out.fail("extract_output raised " + o.short())
    prices = o["prices"]
    mnr = r.op.map_nodal_restr
    if not mnr:
        return out.drop("no_nodal_rows")
    for j in range(3):                      # three (node, step) pairs per case
        one_pick(spec, out, r, prices, mnr, (spec["pick"] + j * 7919) % len(mnr), split, spec["d"] * (1 if j != 1 else -1))
        if out.violations:
            break
    return out


def one_pick(spec, out, r, prices, mnr, k, split, d):
    t, node = int(mnr[k][0]), str(mnr[k][1])
    col = "nodal price: " + node
    if col not in prices.columns:
        return out.fail("no nodal price column for node " + node)
    price = prices[col].values.astype(float)[t]
    if np.isnan(price):
        return out.fail("nodal price of node %s at step %d is NaN although a nodal restriction exists" % (node, t))
    # locate the row: k-th N row of the interval problem
    if split:
        pos = k
        target = None
        for op_ in r.op.ops:
            nk = len(op_.map_nodal_restr)
            if pos < nk:
                target = op_
                break
            pos -= nk
        others = [op_ for op_ in r.op.ops if op_ is not target]
    else:
        target, pos, others = r.op, k, []
    raw = lpkit.from_op(target)
    # the portfolio's nodal rows are the last rows of the problem (rows of type N further up belong to
    # internal nodes of structured assets and have no entry in map_nodal_restr)
    n_outer = len(target.map_nodal_restr)
    nrows = list(range(len(raw.cType) - n_outer, len(raw.cType)))
    if n_outer > len(raw.cType) or any(raw.cType[i] != "N" for i in nrows):
        return out.fail("the last %d rows of the problem are not the nodal restrictions listed in map_nodal_restr" % n_outer)
    # which of them is the balance of (node, t)?  decided from the mapping, not from the order of the list
    if split:
        # interval problems number their steps locally: the shift follows from the interval's own mapping and
        # the same rows of the split problem's mapping (original steps)
        off = 0
        for op_ in r.op.ops:
            if op_ is target:
                break
            off += len(op_.c)
        gm = r.op.mapping
        gsel = gm[(gm.index >= off) & (gm.index < off + len(target.c))]
        if len(gsel) == 0 or len(target.mapping) == 0:
            return out.drop("empty_interval_mapping")
        shift = int(gsel["time_step"].values[0]) - int(target.mapping["time_step"].values[0])
        t_local = t - shift
    else:
        t_local = t
    mp = target.mapping
    sel = mp[(mp["type"] == "d") & (mp["node"].astype(str) == node) & (mp["time_step"].astype(int) == t_local)]
    exp = np.zeros(raw.n)
    df = sel["disp_factor"].fillna(1.0).values if "disp_factor" in sel.columns else np.ones(len(sel))
    for i, f in zip(sel.index.values.astype(int), df):
        exp[i] += float(f)
    A_outer = raw.A[nrows].toarray()
    hits = [j for j in range(len(nrows)) if np.allclose(A_outer[j], exp, rtol=1e-9, atol=1e-12)]
    if len(sel) == 0 or not hits:
        return out.fail("no nodal restriction row balances the dispatch variables of node %s at step %d" % (node, t))
    if pos not in hits:
        out.label("row_order_differs_from_map_nodal_restr")
    pos = hits[0]
    s0, x0, v0 = lpkit.solve(raw)
    if s0 != "optimal":
        return out.drop("reference_not_optimal")
    raw2 = raw.copy()
    raw2.b[nrows[pos]] = raw.b[nrows[pos]] - d
    s1, x1, v1 = lpkit.solve(raw2)
    out.label("perturbed:" + s1)
    if s1 == "infeasible":
        return out
    if s1 != "optimal":
        return out.drop("reference_perturbed_" + s1)
    tol = 2 * core.tol_val(v0) + 1e-4 * abs(d) * (1 + abs(price))
    if v1 > v0 + price * d + tol:
        out.fail("node %s step %d: injection %g changes the optimum by %.9g, more than price x d = %g x %g = %.9g "
                 "(reported price is not a supergradient)" % (node, t, d, v1 - v0, price, d, price * d))
    out.label("price!=0" if abs(price) > 1e-9 else "price=0", "value_moves" if abs(v1 - v0) > tol else "value_flat")
    out.nontrivial = out.nontrivial or (abs(price) > 1e-9 and abs(v1 - v0) > tol)
    return out
