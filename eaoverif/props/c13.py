"""C13  Coarse asset frequency and periodicity equal the fine problem plus equalities."""
import copy

import numpy as np
import scipy.sparse as sp
from hypothesis import strategies as st

from .. import core, gen, build, obs, lpkit
from .. import timeline as tl
from ..core import Outcome, is_err

ID = "C13"
LEVEL = "exploration"
EXAMPLES = {"quick": 900, "thorough": 18000}
RULE = ("Generated: one asset under test - SimpleContract / Contract (with and without buy/sell spread, takes), Storage "
        "(efficiency, in/out costs, inflow, start != end, one or two nodes), Transport / ExtendedTransport (efficiency, "
        "costs), MultiCommodityContract - given freq = m x grid frequency (m in 2..4, window on whole coarse steps or "
        "trailing remainder) or a periodicity of p steps (optionally within durations of p*q steps), or both at once (freq = 2 steps, period = 2-3 coarse steps), plus ordinary "
        "companions (market pairs with time-varying prices, a storage, contracts) on uniform grids of 4-16 steps. "
        "Oracle: the same portfolio with the PLAIN asset is assembled by EAO and the harness adds explicit equality "
        "rows (constant rate inside each coarse interval; equal values at equal positions of the periods within a "
        "duration), solved by scipy-HiGHS: |V - V_ref| <= tol; the reported dispatch of the asset has a constant "
        "rate inside every coarse interval / repeats with the period; set-up and optimisation raise nothing. "
        "Non-trivial: the equalities bind (V_ref below the unconstrained fine optimum) and the asset has non-zero "
        "dispatch. Distinct = distinct spec hash.")
RULE += (' Plant / CHP with periodicity: known finding D59 (class excluded from generation, replay listed).')
ASSUMPTIONS = ["uniform step length, scalar limits and wacc = 0 on the coarse / periodic asset (EAO averages prices unweighted "
               "and discounts a merged variable once - documented averaging)",
               "no holding cost on a coarse storage (level is evaluated at coarse step ends by definition of the coarse variables)",
               "periods are multiples of the grid step, anchored at the grid start"]


@st.composite
def _strategy(draw):
    g = draw(gen.grids(min_T=4, max_T=16, freqs=["h", "h", "2h", "15min", "6h"], uniform_only=True))
    T = g["T"]
    nn = draw(st.integers(1, 2))
    nodes = ["n%d" % i for i in range(nn)]
    prices = {"p0": draw(gen.price_series(T)), "p1": draw(gen.price_series(T))}
    cx = gen.Cx(g, nodes, prices)
    mode = draw(st.sampled_from(["coarse", "coarse", "coarse", "periodic", "periodic", "periodic", "both"]))
    if mode == "both" and T < 8:
        mode = "coarse"
    cls = draw(st.sampled_from(["simple", "simple_spread", "contract", "storage", "storage2", "transport", "exttransport",
                                "multi", "plant"]))
    excluded = 0
    if cls == "plant":
        # known finding D59 (open): CHPAsset / Plant document `periodicity` but set-up raises (the periodic joining is
        # applied to the contract part before the unit-commitment variables are added). Not generated; the listed
        # replay keeps it visible.
        excluded = 1
        cls = "simple"
    if cls in ("transport", "exttransport", "storage2") and nn < 2:
        cx.nodes.append("n1")
    if cls == "simple":
        a = gen.a_simple(draw, cx, "u", allow_forms=False)
        a["extra_costs"] = 0.0
    elif cls == "simple_spread":
        a = gen.a_simple(draw, cx, "u", allow_forms=False, sides="both")
        a["extra_costs"] = draw(st.sampled_from([0.25, 1.0]))
    elif cls == "contract":
        a = gen.a_contract(draw, cx, "u")
    elif cls in ("storage", "storage2"):
        a = gen.a_storage(draw, cx, "u", two_nodes=(cls == "storage2"))
        a["price"] = None
    elif cls in ("transport", "exttransport"):
        a = gen.a_transport(draw, cx, "u", ext=(cls == "exttransport"))
        a["costs_time_series"] = draw(st.one_of(st.none(), st.just("p1")))
    else:
        a = gen.a_multi(draw, cx, "u")
    a["wacc"] = 0.0
    if a["type"] not in ("contract", "multi", "exttransport"):
        a.pop("min_take", None)
        a.pop("max_take", None)
    if mode == "coarse":
        m = draw(st.sampled_from([2, 2, 3, 4]))
        a["freq"] = tl.freq_multiple(g["freq"], m)
        a["_m"] = m
        if a["type"] == "storage":
            a["cost_store"] = 0.0
        s = draw(st.sampled_from([None, None, 0, 1, 2, -1, -2, -3]))
        if s is None:
            a["start"] = a["end"] = None
        else:
            s = min(s, max(0, T - m))
            # whole coarse steps counted from the asset start; start and end may lie outside the horizon,
            # so that the horizon cuts through a coarse step
            n = draw(st.integers(1, max(1, (T - s) // m + 1)))
            a["start"], a["end"] = s, s + n * m
            if draw(st.integers(0, 3)) == 0:
                a["end"] = None
        # takes on whole coarse steps
        s0 = a["start"] or 0
        for key in ("min_take", "max_take"):
            if a.get(key):
                new = []
                for (ts, te, v) in a[key]:
                    ks = max(0, (max(ts, s0) - s0) // m)
                    ke = max(ks + 1, (min(te, T) - s0 + m - 1) // m)
                    ns, ne = s0 + ks * m, s0 + ke * m
                    dur_old = float(sum(tl.dt(g, ts, te)))
                    new.append([ns, ne, v / dur_old * float(sum(tl.dt(g, ns, ne)))])
                a[key] = new
    elif mode == "both":
        # a coarser frequency and a periodicity of whole coarse steps on the same asset
        m = 2
        pc = draw(st.sampled_from([2, 2, 3])) if T >= 12 else 2
        a["freq"] = tl.freq_multiple(g["freq"], m)
        a["periodicity"] = tl.freq_multiple(g["freq"], m * pc)
        a["_m"], a["_p"] = m, m * pc
        a["start"] = a["end"] = None
        a.pop("min_take", None)
        a.pop("max_take", None)
        if a["type"] == "storage":
            a["cost_store"] = 0.0
    else:
        p = draw(st.sampled_from([2, 2, 3, 4]))
        a["periodicity"] = tl.freq_multiple(g["freq"], p)
        a["_p"] = p
        if draw(st.booleans()):
            q = draw(st.sampled_from([2, 3]))
            a["periodicity_duration"] = tl.freq_multiple(g["freq"], p * q)
            a["_q"] = q
        if draw(st.integers(0, 2)) == 0:
            a["start"], a["end"] = gen.window(draw, cx, p_none=0.0)
        else:
            a["start"] = a["end"] = None
    assets = [a]
    for i in range(draw(st.integers(0, 2))):
        c = gen.draw_asset(draw, cx, draw(st.sampled_from(["simple", "storage"])), "c%d" % i)
        if c["type"] == "storage":
            c["price"] = None
        assets.append(c)
    mk = gen.markets(cx, cap_q=16.0)
    for i, n in enumerate(cx.nodes):
        base = draw(gen.price_series(T))
        sp_ = draw(st.sampled_from([0.0, 0.5, 2.0]))
        cx.prices["pm_hi%d" % i] = [v + sp_ for v in base]
        cx.prices["pm_lo%d" % i] = list(base)
        mk[2 * i]["price"] = "pm_hi%d" % i
        mk[2 * i + 1]["price"] = "pm_lo%d" % i
    assets += mk
    return {"grid": g, "prices": cx.prices, "assets": assets, "mode": mode, "cls": cls, "excluded_known": excluded}


def strategy(tier):
    return _strategy()


def coarse_steps(a, T):
    """(asset start, number of complete coarse intervals inside the asset window); an interval may be cut
    by the horizon - then only its steps inside the horizon carry dispatch"""
    s0 = a.get("start") if a.get("start") is not None else 0
    end = a["end"] if a.get("end") is not None else T
    return s0, max(0, (end - s0) // a["_m"])


def groups(spec, a, steps):
    """lists of steps whose dispatch (rate) must be equal"""
    T = spec["grid"]["T"]
    if spec["mode"] == "coarse":
        m = a["_m"]
        s0, ncomp = coarse_steps(a, T)
        grp = [[t for t in range(s0 + j * m, s0 + (j + 1) * m) if 0 <= t < T] for j in range(ncomp)]
        return [x for x in grp if x]
    if spec["mode"] == "both":
        # equal inside a coarse step, and coarse steps a whole number of periods apart are equal
        m, pc = a["_m"], a["_p"] // a["_m"]
        byk = {}
        for t in steps:
            if t < (T // m) * m:
                byk.setdefault((t // m) % pc, []).append(t)
        return [v for v in byk.values() if len(v) > 1]
    p = a["_p"]
    q = a.get("_q")
    byk = {}
    for t in steps:
        dur = (t // (p * q)) if q else 0
        byk.setdefault((dur, t % p), []).append(t)
    return [v for v in byk.values() if len(v) > 1]


def check(spec):
    out = Outcome()
    g = spec["grid"]
    T = g["T"]
    a = spec["assets"][0]
    dt = tl.dt(g)
    out.label("mode:" + spec["mode"], "class:" + spec["cls"])
    if spec["mode"] != "coarse" and a.get("_q") and g.get("tz"):
        # EAO anchors the duration blocks by calendar arithmetic starting one duration before the grid: a DST switch
        # in that stretch moves the anchor by an hour and with it the blocks by a step.  Where blocks begin is not
        # part of the statement (anchored sizes such as 'W' follow the calendar anyway); the reference counts them
        # from the grid start, so such grids are left out
        import pandas as pd
        t0 = pd.Timestamp(tl.point(g, 0))
        if t0.tzinfo is None:
            t0 = t0.tz_localize(g["tz"])
        back = (tl.point(g, 1) - tl.point(g, 0)) * (a["_p"] * (a["_q"] + 1))
        if (t0 - back).utcoffset() != t0.utcoffset():
            return out.drop("dst_switch_before_grid_moves_block_anchor")
    r = obs.Run(spec)
    if is_err(r.op):
        return out.fail("set-up of a %s asset with %s raised %s"
                        % (a["type"], "freq=" + a["freq"] if spec["mode"] != "periodic" else "periodicity=" + a["periodicity"],
                           r.op.short()))
    res = r.optimize()
    if is_err(res):
        return out.fail("optimising raised " + res.short())
    # ---------------------------------------------------------------- reference: plain asset + equalities
    plain = copy.deepcopy(spec)
    pa = plain["assets"][0]
    for k in ("freq", "periodicity", "periodicity_duration"):
        pa.pop(k, None)
    if spec["mode"] in ("coarse", "both"):
        s0, ncomp = coarse_steps(a, T)
        pa["start"], pa["end"] = s0, s0 + ncomp * a["_m"]     # the trailing remainder has no coarse step
        for key in ("min_take", "max_take"):                   # takes refer to whole coarse steps
            pass
    rp = obs.Run(plain)
    if is_err(rp.op):
        return out.drop("plain_setup_error:" + rp.op.kind)
    raw = lpkit.from_op(rp.op)
    s_free, x_free, v_free = lpkit.solve(raw)
    mp = rp.op.mapping
    m1 = mp[(mp["asset"] == a["name"])]
    m1 = m1[~m1.index.duplicated(keep="first")]
    var_at = {}
    for i, vn, t in zip(m1.index.values.astype(int), m1["var_name"].values, m1["time_step"].values.astype(int)):
        var_at.setdefault(str(vn), {})[int(t)] = int(i)
    rows, nrow = [], 0
    for vn, at in var_at.items():
        for grp in groups(spec, a, sorted(at)):
            grp = [t for t in grp if t in at]
            for t in grp[1:]:
                rows.append((at[grp[0]], 1.0 / dt[grp[0]], at[t], -1.0 / dt[t]))
    if rows:
        E = sp.lil_matrix((len(rows), raw.n))
        for k, (i, ci, j, cj) in enumerate(rows):
            E[k, i] = ci
            E[k, j] = cj
        raw.add_rows(E, np.zeros(len(rows)), "S" * len(rows))
    s_ref, x_ref, v_ref = lpkit.solve(raw)
    out.label("ref:" + s_ref, "equalities:%d" % min(len(rows), 9))
    if isinstance(res, str):
        if res != "inaccurate" and s_ref == "optimal":
            out.fail("EAO reports '%s' but the fine problem with equalities is feasible (optimum %.9g)" % (res, v_ref))
        return out if out.violations else out.drop("no_solution")
    V = float(res.value)
    if s_ref == "infeasible":
        return out.fail("EAO returns %.9g but the fine problem with the equalities is infeasible" % V)
    if s_ref != "optimal":
        return out.drop("reference_" + s_ref)
    tol = 2 * core.tol_val(v_ref) + 1e-7 * float(np.abs(np.asarray(r.op.c) * np.asarray(res.x)).sum())
    if abs(V - v_ref) > tol:
        out.fail("optimal value %.9g, fine problem with equalities %.9g (unconstrained fine optimum %.9g)"
                 % (V, v_ref, v_free if s_free == "optimal" else float("nan")))
    # ---------------------------------------------------------------- reported dispatch pattern
    o = r.output()
    if is_err(o):
        return out.fail("extract_output raised " + o.short())
    scale = lpkit.from_op(r.op).scale()
    ftol = 20 * core.tol_feas(scale)
    active = False
    for (an, n) in build.asset_node_pairs(a):
        col = build.disp_col(spec, an, n)
        if col not in o["dispatch"].columns:
            out.fail("no dispatch column " + col)
            continue
        v = o["dispatch"][col].values.astype(float)
        if np.abs(v).max(initial=0) > ftol:
            active = True
        rate = v / dt
        steps = sorted(set(t for at in var_at.values() for t in at))
        for grp in groups(spec, a, steps):
            grp = [t for t in grp if t in steps]
            if len(grp) > 1 and np.ptp(rate[grp]) > ftol / dt.min():
                out.fail("dispatch of %s at node %s is not %s over steps %s: rates %s"
                         % (a["name"], n, "constant" if spec["mode"] == "coarse" else "periodic", grp, rate[grp]))
                break
    binds = s_free == "optimal" and v_ref < v_free - 10 * tol
    out.label("binds" if binds else "slack", "active" if active else "idle")
    out.nontrivial = binds and active
    return out
