"""C11  JSON round trip preserves every asset and portfolio."""
import copy

import numpy as np
import pandas as pd
import scipy.sparse as sp
from hypothesis import strategies as st

from eaopack import serialization
from eaopack.portfolio import Portfolio

from .. import core, gen, build, obs, lpkit
from .. import timeline as tl
from ..core import Outcome, is_err, eao_call
from . import c07

ID = "C11"
LEVEL = "exploration"
EXAMPLES = {"quick": 1200, "thorough": 24000}
RULE = ("Generated: one asset of every class - SimpleContract, Contract, Transport, ExtendedTransport, Storage (incl. "
        "blocks / MIP options), MultiCommodityContract, CHPAsset, CHPAsset_with_min_load_costs, Plant, OrderBook "
        "(dict and DataFrame orders), ScaledAsset, StructuredAsset, LinkedAsset - with parameters as scalars, interval "
        "dictionaries holding lists, numpy arrays (object arrays of Timestamps, datetime64 of resolution ns/us/s/m) or DatetimeIndex, price-column names; naive or zone-aware stamps; LinkedAsset with default or explicit running time of its partner; "
        "stand-alone or inside a portfolio with 0-2 further assets, with or without the portfolio's own time grid; "
        "saved before or after a set-up. Oracle: to_json and load_from_json succeed; the loaded object builds the "
        "identical problem (c,l,u,A,b,cType, mapping rows) as a fresh original on a generated grid and prices; "
        "to_json(load(to_json(o))) == to_json(o) (for date arrays not in nanoseconds: the same after one round trip); a portfolio's own grid returns with identical points, step "
        "lengths and time zone; if the original portfolio can be set up with its own grid (e.g. naive interval data "
        "on a zone-aware grid) the loaded one can, with the identical problem. Non-trivial: class other than the "
        "four covered by the suite (simple contract, storage, order book, structured), or zone-aware stamps, or "
        "array-valued parameters, or saved after a set-up. Distinct = distinct spec hash.")
RULE += (" Zone-aware stamps carry pandas' default zone object or a zoneinfo.ZoneInfo; CHP declared without heat node (_no_heat); numpy scalars where the set-up accepts them (window as numpy dates, storage parameters as numpy numbers).")
ASSUMPTIONS = ["'profile' (pd.Series) is not serialisable by design (NotImplemented for coarse profiles) and not generated",
               "problems compared exactly (same code path before and after the round trip)"]

KINDS = ["simple", "contract", "transport", "exttransport", "storage", "storage_mip", "storage_blocks", "multi", "plant",
         "chp", "chp_minload", "chp_noheat", "orderbook", "orderbook_frame", "scaled", "structured", "linked", "chp", "plant", "scaled",
         "linked"]


@st.composite
def _strategy(draw):
    g = draw(gen.grids(min_T=2, max_T=8, uniform_only=True))
    nodes = ["n0", "n1", "n2"]
    prices = {"p0": draw(gen.price_series(g["T"])), "p1": draw(gen.price_series(g["T"]))}
    cx = gen.Cx(g, nodes, prices)
    kind = draw(st.sampled_from(KINDS))
    if kind == "exttransport":
        a = gen.a_transport(draw, cx, "x", ext=True)
    elif kind == "transport":
        a = gen.a_transport(draw, cx, "x", ext=False)
    elif kind == "chp":
        a = gen.a_chp(draw, cx, "x")
        if draw(st.booleans()):
            a["ramp"] = 2.0 / cx.dt0
        if draw(st.booleans()):
            a["start_ramp_lower_bounds"] = [0.5 / cx.dt0]
            a["start_ramp_upper_bounds"] = [0.5 / cx.dt0]
            a["ramp_freq"] = g["freq"]
    elif kind == "chp_noheat":
        a = gen.a_plant(draw, cx, "x")
        a["type"] = "chp_noheat"
    elif kind == "chp_minload":
        a = gen.a_chp(draw, cx, "x")
        a["type"] = "chp_minload"
        a["min_load_threshhold"] = 1.0 / cx.dt0
        a["min_load_costs"] = draw(st.sampled_from([0.5, 2.0])) / cx.dt0
    elif kind == "orderbook_frame":
        a = gen.a_orderbook(draw, cx, "x")
        a["orders_form"] = "frame"
    elif kind == "scaled":
        a = gen.a_scaled(draw, cx, "x")
    elif kind == "structured":
        a = gen.a_structured(draw, cx, "x")
    elif kind == "linked":
        c1 = gen.a_chp(draw, cx, "x_c1")
        c2 = gen.a_chp(draw, cx, "x_c2")
        c1["nodes"] = ["n0", "n1"]
        c2["nodes"] = ["n0", "n1"]
        for c in (c1, c2):
            for k in ("fuel_efficiency", "consumption_if_on", "start_fuel"):
                c.pop(k, None)
            c["min_cap"] = max(c["min_cap"], 0.25 * c["max_cap"])
        if draw(st.booleans()):
            # one inner name contains the other, the longer one listed first (partners are resolved by name on loading)
            c1["name"], c2["name"] = "x_c_aux", "x_c"
        a = {"type": "linked", "name": "x", "nodes": ["n0", "n1"], "assets": [c1, c2],
             "asset1_variable": [c2["name"], "disp", "n0"], "asset2_variable": [c1["name"], "bool_on", None],
             "time_back": draw(st.sampled_from([0, 1])), "time_forward": draw(st.sampled_from([0, 0, 1])), "wacc": 0.0}
    else:
        a = gen.draw_asset(draw, cx, kind, "x")
    if kind == "linked" and draw(st.booleans()):
        # explicit running time of the partner, in general different from the partner's own attribute
        a["asset2_time_already_running"] = draw(st.sampled_from([0, 1, 3])) * cx.dt0
        a["time_back"] = draw(st.sampled_from([1, 2])) * cx.dt0
    # numpy date arrays of coarser resolution than nanoseconds (minutes always represent the grid points)
    u64 = draw(st.sampled_from([None, None, "ns", "us", "s", "m"]))
    if u64:
        def walk(x):
            if isinstance(x, dict):
                if "iv" in x:
                    x["form"] = "array64:" + u64
                if x.get("min_take") or x.get("max_take"):
                    x["take_form"] = "array64:" + u64
                for v in x.values():
                    walk(v)
            elif isinstance(x, list):
                for v in x:
                    walk(v)
        walk(a)
    # stamps: naive on aware grid where interval data exist
    if g["tz"] is not None and draw(st.booleans()):
        a["naive"] = True
    if draw(st.integers(0, 5)) == 0:
        # numpy scalars where the set-up accepts them (window as numpy dates, storage parameters as numpy numbers)
        a["np_scalars"] = True
    wrap = draw(st.sampled_from(["asset", "portfolio", "portfolio_own_grid"]))
    assets = [a]
    if wrap != "asset":
        for i in range(draw(st.integers(0, 2))):
            assets.append(gen.draw_asset(draw, cx, draw(st.sampled_from(["simple", "contract", "storage"])), "c%d" % i))
    return {"grid": g, "prices": cx.prices, "assets": assets, "wrap": wrap, "kind": kind,
            "after_setup": draw(st.booleans()),
            # zone-aware stamps as pandas builds them from a zone name (pytz) or carrying a zoneinfo.ZoneInfo object
            "zoneinfo": g["tz"] is not None and draw(st.integers(0, 2)) == 0}


def strategy(tier):
    return _strategy()


def ambiguous_stamps(spec):
    """naive stamps are only sound when their wall time exists once in the zone"""
    g = spec["grid"]
    if g["tz"] is None:
        return False
    for k in range(-60, g["T"] + 60):
        if not build._wall_ok(tl.point(g, k), g["tz"]):
            return True
    return False


def same(out, A, B, what):
    """exact equality of two problems"""
    if is_err(A) or is_err(B):
        if is_err(A) and is_err(B):
            return
        out.fail("%s: set-up %s" % (what, "of the loaded object raises " + B.short() if is_err(B) else "works only after the round trip"))
        return
    for nm in ("c", "l", "u"):
        a, b = np.asarray(getattr(A, nm), float), np.asarray(getattr(B, nm), float)
        if a.shape != b.shape or not np.allclose(a, b, rtol=1e-12, atol=0, equal_nan=True):
            out.fail("%s: %s differs after the round trip" % (what, nm))
            return
    if (A.cType or "") != (B.cType or ""):
        out.fail("%s: row types differ after the round trip" % what)
        return
    if A.A is not None and len(A.cType or ""):
        if not np.allclose(np.asarray(A.b, float), np.asarray(B.b, float), rtol=1e-12, atol=0):
            out.fail("%s: right-hand sides differ after the round trip" % what)
        if abs(sp.csr_matrix(A.A) - sp.csr_matrix(B.A)).sum() > 0:
            out.fail("%s: restriction matrix differs after the round trip" % what)
    try:
        ra = c07.mapping_records(A.mapping) if len(A.mapping) else []
        rb = c07.mapping_records(B.mapping) if len(B.mapping) else []
    except Exception as e:
        out.fail("%s: mapping unreadable: %r" % (what, e))
        return
    names_a = sorted(A.mapping["asset"].astype(str).tolist()) if len(A.mapping) else []
    names_b = sorted(B.mapping["asset"].astype(str).tolist()) if len(B.mapping) else []
    if ra != rb or names_a != names_b:
        out.fail("%s: mapping differs after the round trip" % what)


def make(spec):
    assets, ctx = build.build_assets(spec)
    if spec["wrap"] == "asset":
        return assets[0]
    pf = Portfolio(assets)
    if spec["wrap"] == "portfolio_own_grid":
        pf.set_timegrid(build.build_grid(spec["grid"]))
    return pf


def setup(obj, spec, own=False):
    prices = build.build_prices(spec)
    if own:
        return eao_call(obj.setup_optim_problem, prices)
    return eao_call(obj.setup_optim_problem, prices, build.build_grid(spec["grid"]))


def check(spec):
    out = Outcome()
    a = spec["assets"][0]
    out.label("kind:" + spec["kind"], "wrap:" + spec["wrap"], "after_setup" if spec["after_setup"] else "before_setup",
              "naive_on_aware" if a.get("naive") else None, "tz:" + str(spec["grid"]["tz"]),
              "stamps:zoneinfo" if spec.get("zoneinfo") and not a.get("naive") else None,
              "numpy_scalars" if a.get("np_scalars") else None)
    if a.get("naive") and ambiguous_stamps(spec):
        return out.drop("ambiguous_wall_time")
    obj = make(spec)
    ref = make(spec)
    opA = setup(ref, spec)
    if is_err(opA):
        return out.drop("setup_error:" + opA.kind)
    if spec["after_setup"]:
        first = setup(obj, spec)
        if is_err(first):
            return out.drop("setup_error")
    s1 = eao_call(serialization.to_json, obj)
    if is_err(s1):
        return out.fail("to_json raised %s (%s%s)" % (s1.short(), spec["kind"], ", after a set-up" if spec["after_setup"] else ""))
    obj2 = eao_call(serialization.load_from_json, s1)
    if is_err(obj2):
        return out.fail("load_from_json of a saved %s%s raised %s" % (spec["kind"], " (saved after a set-up)" if spec["after_setup"] else "", obj2.short()))
    s2 = eao_call(serialization.to_json, obj2)
    if is_err(s2):
        return out.fail("to_json of the loaded object raised " + s2.short())
    arr64 = "array64" in core.canon(spec) and "array64:ns" not in core.canon(spec)
    if arr64 and s1 != s2:
        # date arrays that are not in nanoseconds are written as they are and come back in nanoseconds: the text
        # may change once; demanded is that the loaded object is a fixed point (and builds the same problem, below)
        out.label("json_normalised_once")
        obj3 = eao_call(serialization.load_from_json, s2)
        s3 = s2 if is_err(obj3) else eao_call(serialization.to_json, obj3)
        if is_err(obj3) or is_err(s3) or s3 != s2:
            out.fail("saving and loading the loaded %s a second time still changes the JSON" % spec["kind"])
    elif s1 != s2:
        l1, l2 = s1.splitlines(), s2.splitlines()
        d = [(x, y) for x, y in zip(l1, l2) if x != y][:2]
        out.fail("saving the loaded %s does not reproduce the JSON (%d vs %d lines), e.g. %s" % (spec["kind"], len(l1), len(l2), d))
    g2 = getattr(obj2, "timegrid", None)          # the loaded grid, before any set-up replaces it
    if spec["wrap"] == "portfolio_own_grid":
        # first use of the loaded portfolio: its own grid (a set-up with another grid would replace it)
        ref2 = make(spec)
        oA = setup(ref2, spec, own=True)
        if not is_err(oA):
            oB = setup(obj2, spec, own=True)
            same(out, oA, oB, "problem on the portfolio's own grid")
    opB = setup(obj2, spec)
    same(out, opA, opB, "problem on a given grid")
    if spec["wrap"] == "portfolio_own_grid":
        g1 = make(spec).timegrid
        if g2 is None:
            out.fail("the portfolio's own time grid is lost")
        else:
            p1, p2 = list(g1.timepoints), list(g2.timepoints)
            if len(p1) != len(p2) or any(x != y for x, y in zip(p1, p2)):
                out.fail("time points of the portfolio's grid change in the round trip")
            if str(g1.tz) != str(g2.tz):
                out.fail("time zone of the portfolio's grid changes from %s to %s" % (g1.tz, g2.tz))
            if not np.array_equal(np.asarray(g1.dt), np.asarray(g2.dt)) or g1.main_time_unit != g2.main_time_unit:
                out.fail("step lengths / main time unit of the portfolio's grid change")
    arrays = any(isinstance(v, dict) and str(v.get("form")).startswith(("array", "dtindex")) for x in spec["assets"] for v in x.values())
    out.label("date_array_resolution:" + core.canon(spec).split("array64:")[1][:2].strip('"') if "array64:" in core.canon(spec) else None)
    out.nontrivial = spec["kind"] not in ("simple", "storage", "orderbook", "structured") or spec["grid"]["tz"] is not None \
        or arrays or spec["after_setup"]
    return out
