"""C16  Scaled and structured assets are equivalent to what they wrap."""
import copy

import numpy as np
from hypothesis import strategies as st

from .. import core, gen, build, obs, lpkit, transfer
from .. import timeline as tl
from ..core import Outcome, is_err

ID = "C16"
LEVEL = "exploration"
EXAMPLES = {"quick": 800, "thorough": 16000}
RULE = ("Generated: (pinned) a scaled asset with min_scale = max_scale = s over a base Storage (size, rates, levels, "
        "inflow, efficiency, costs), SimpleContract (one- and two-sided, positive min_cap), Contract with takes, Transport, "
        "ExtendedTransport with takes, MultiCommodityContract or OrderBook (partial execution; order capacities x s/S), normalisation S in {0.5,1,2}, fixed-cost rate, own window, with companions and market pairs; "
        "(free) the same with min_scale < max_scale; (structured) a sub-portfolio of 2-5 assets with internal and "
        "external nodes wrapped as StructuredAsset (own window in 30%; in a quarter with a second structured asset inside it, attached to an internal or the external node) next to outside assets. Oracle: (pinned) "
        "V = V(base with every volume/rate parameter x s/S) - s x rate x sum dt(active window) and the scaled "
        "solution transferred to that plain portfolio is feasible and optimal; (free) V_free >= V(s_i) for s_i at "
        "min, max and two interior points, V_free = V(s*) for the returned scale s* within [min,max]; (structured) "
        "V = V_flat (same assets at top level, internal nodes as ordinary nodes, wrapper window clipped onto inner "
        "assets), structured solution transferred through (inner asset, variable, node) is feasible and optimal for "
        "the flat problem, external dispatch column = sum of the inner assets' dispatch at that node. "
        "Non-trivial: (pinned/free) the scaled asset has non-zero dispatch and s/S != 1 or fixed cost != 0; "
        "(structured) an internal node carries flow. Distinct = distinct spec hash.")
RULE += (' Round 5: the scaled asset is active within its own window intersected with that of its base asset (documented start / end); scaled order books are generated without window.')
ASSUMPTIONS = ["a scaled asset is active (dispatch and fixed cost) within its own documented start / end, intersected with the base asset's window (order book bases carry no window of their own: scaled order books are generated without window)",
               "LP bases only (no MIP storage options inside a scaled asset)"]


def scaled_base(a, f):
    """plain base asset with every volume / rate parameter multiplied by f"""
    b = copy.deepcopy(a)
    for k in ("min_cap", "max_cap", "cap_in", "cap_out", "size", "start_level", "end_level", "inflow"):
        if k in b and b[k] is not None:
            if isinstance(b[k], dict):
                b[k] = copy.deepcopy(b[k])
                for r in b[k]["iv"]:
                    r[2] *= f
            else:
                b[k] = b[k] * f
    for k in ("min_take", "max_take"):
        if b.get(k):
            b[k] = [[s, e, v * f] for (s, e, v) in b[k]]
    if b["type"] == "orderbook":
        b["orders"] = [[o[0], o[1], o[2] * f, o[3]] for o in b["orders"]]
    return b


@st.composite
def _scaled(draw, free):
    g = draw(gen.grids(min_T=2, max_T=10))
    nn = draw(st.integers(1, 2))
    nodes = ["n%d" % i for i in range(nn)]
    prices = {"p0": draw(gen.price_series(g["T"])), "p1": draw(gen.price_series(g["T"]))}
    cx = gen.Cx(g, nodes, prices)
    cls = draw(st.sampled_from(["storage", "storage", "simple", "simple", "contract", "transport", "multi", "exttransport",
                                "orderbook", "orderbook"]))
    if cls in ("transport", "exttransport") and nn < 2:
        cx.nodes.append("n1")
    a = gen.a_scaled(draw, cx, "sc", base_cls="transport" if cls == "exttransport" else cls)
    if cls == "exttransport":
        a["base"] = gen.a_transport(draw, cx, "sc_base", ext=True)
    base = a["base"]
    if base["type"] == "storage":
        base["price"] = None
    if base["type"] == "simple" and draw(st.booleans()):
        base["min_cap"] = abs(base["max_cap"]) * 0.25 if isinstance(base["max_cap"], (int, float)) and base["max_cap"] > 0 else base["min_cap"]
    for k in ("min_cap", "max_cap"):
        if isinstance(base.get(k), dict) and "col" in base[k]:
            base[k] = 0.0 if k == "min_cap" else 1.0 / cx.dt0
    if base.get("min_take") or base.get("max_take"):
        base["start"] = base["end"] = None
    if base["type"] == "orderbook":
        a["start"] = a["end"] = None       # an order book has no window of its own to compare with
    if free:
        a["min_scale"] = a["max_scale"] * draw(st.sampled_from([0.0, 0.0, 0.25, 0.5]))
    else:
        s = draw(st.sampled_from([0.5, 1.0, 2.0, 3.0]))
        a["min_scale"] = a["max_scale"] = s
    assets = [a]
    for i in range(draw(st.integers(0, 2))):
        c = gen.draw_asset(draw, cx, draw(st.sampled_from(["simple", "storage", "contract"])), "c%d" % i)
        if c["type"] == "storage":
            c["price"] = None
        if c.get("min_take") or c.get("max_take"):
            c["start"] = c["end"] = None
        assets.append(c)
    assets += gen.markets(cx, draw=draw, cap_q=16.0)
    # time-varying market at the first node so that storages cycle
    cx.prices["pm_lo"] = [max(0.0, v - 0.25) for v in prices["p0"]]
    cx.prices["pm_hi"] = [v + 0.25 for v in prices["p0"]]
    return {"kind": "free" if free else "pinned", "grid": g, "prices": cx.prices, "assets": assets}


@st.composite
def _structured(draw):
    g = draw(gen.grids(min_T=2, max_T=10))
    nn = draw(st.integers(1, 2))
    nodes = ["n%d" % i for i in range(nn)]
    prices = {"p0": draw(gen.price_series(g["T"])), "p1": draw(gen.price_series(g["T"]))}
    cx = gen.Cx(g, nodes, prices)
    s = gen.a_structured(draw, cx, "st", with_window=True)
    if draw(st.integers(0, 3)) == 0:
        # a structured asset inside the structured asset, attached to one of the outer one's nodes
        inner_nodes = [n for x in s["assets"] for n in x["nodes"] if n not in s["nodes"]]
        at = draw(st.sampled_from(sorted(set(inner_nodes)) + s["nodes"]))
        s2 = gen.a_structured(draw, gen.Cx(g, [at], cx.prices), "st_in", with_window=True)
        s["assets"].append(s2)
    for x in leaves(s):
        if x["type"] == "storage":
            x["price"] = None
        if x.get("min_take") or x.get("max_take"):
            x["start"] = x["end"] = None
            if s.get("start") is not None or s.get("end") is not None or any(
                    y["type"] == "structured" and (y.get("start") is not None or y.get("end") is not None) for y in s["assets"]):
                x["min_take"] = x["max_take"] = None
    assets = [s]
    for i in range(draw(st.integers(0, 2))):
        c = gen.draw_asset(draw, cx, draw(st.sampled_from(["simple", "storage", "transport"])), "c%d" % i)
        if c["type"] == "storage":
            c["price"] = None
        assets.append(c)
    assets += gen.markets(cx, draw=draw, cap_q=16.0)
    if draw(st.booleans()):
        assets = [assets[i] for i in draw(st.permutations(list(range(len(assets)))))]
    return {"kind": "structured", "grid": g, "prices": cx.prices, "assets": assets}


def strategy(tier):
    return st.one_of(_scaled(False), _scaled(False), _scaled(True), _structured(), _structured())


def active_dt(g, a):
    T = g["T"]
    s, e = a.get("start"), a.get("end")
    lo, hi = (0 if s is None else max(0, s)), (T if e is None else min(T, e))
    return float(tl.dt(g)[lo:hi].sum()) if hi > lo else 0.0


def solve_spec(spec):
    r = obs.Run(spec)
    if is_err(r.op):
        return r, None
    res = r.optimize()
    return r, res


def plain_version(spec, s):
    """scaled asset replaced by the plain base with parameters x s/S (same name)"""
    s2 = copy.deepcopy(spec)
    for i, a in enumerate(s2["assets"]):
        if a["type"] == "scaled":
            b = scaled_base(a["base"], s / a["norm_scale"])
            b["name"] = a["name"]
            # the scaled asset is active within its own window (documented start / end) and that of its base asset
            if a.get("start") is not None and b["type"] != "orderbook":
                b["start"] = a["start"] if b.get("start") is None else max(b["start"], a["start"])
            if a.get("end") is not None and b["type"] != "orderbook":
                b["end"] = a["end"] if b.get("end") is None else min(b["end"], a["end"])
            s2["assets"][i] = b
            fixed = s * a["fix_costs"] * active_dt(spec["grid"], a)
    return s2, fixed


def check_scaled(spec, out):
    g = spec["grid"]
    sa = [a for a in spec["assets"] if a["type"] == "scaled"][0]
    out.label("base:" + sa["base"]["type"])
    r, res = solve_spec(spec)
    if is_err(r.op):
        return out.fail("set-up of a scaled %s raised %s" % (sa["base"]["type"], r.op.short()))
    if is_err(res):
        return out.drop("optimize_error")
    smin, smax = sa["min_scale"], sa["max_scale"]
    if isinstance(res, str):
        if spec["kind"] == "pinned" and res != "inaccurate":
            s2, fixed = plain_version(spec, smin)
            r2, res2 = solve_spec(s2)
            if not is_err(r2.op) and not is_err(res2) and not isinstance(res2, str):
                out.fail("scaled problem reported '%s' but the plain portfolio with parameters x s/S is feasible" % res)
        return out if out.violations else out.drop("no_solution")
    V = float(res.value)
    mp = r.op.mapping
    row = mp[(mp["asset"] == sa["name"]) & (mp["var_name"] == "scale")]
    if len(row) == 0 and not (mp["asset"] == sa["name"]).any():
        return out.drop("base_inactive")       # nothing of the base lies in the horizon: nothing to scale (documented)
    if len(row) != 1:
        return out.fail("no unique scale variable in the mapping")
    sstar = float(res.x[int(row.index[0])])
    tol = 4 * core.tol_val(V)
    if sstar < smin - 1e-6 or sstar > smax + 1e-6:
        out.fail("returned scale %g outside [%g,%g]" % (sstar, smin, smax))
    o = r.output()
    active = False
    if not is_err(o):
        for (an, n) in build.asset_node_pairs(sa):
            col = build.disp_col(spec, an, n)
            if col in o["dispatch"].columns and np.abs(o["dispatch"][col].values.astype(float)).max(initial=0) > 1e-5:
                active = True
    points = [smin] if spec["kind"] == "pinned" else sorted(set([smin, smax, smin + 0.25 * (smax - smin), smin + 0.75 * (smax - smin), min(max(sstar, smin), smax)]))
    for s in points:
        s2, fixed = plain_version(spec, s)
        r2, res2 = solve_spec(s2)
        if is_err(r2.op) or is_err(res2):
            return out.drop("plain_version_error")
        if isinstance(res2, str):
            if spec["kind"] == "pinned" and res2 != "inaccurate":
                out.fail("scaled problem solved (%.9g) but the plain portfolio with parameters x s/S is '%s'" % (V, res2))
            continue
        Vs = float(res2.value) - fixed
        if spec["kind"] == "pinned":
            if abs(V - Vs) > tol:
                out.fail("scale %g/%g pinned: value %.9g, plain base with parameters x s/S gives %.9g - fixed cost %.9g = %.9g"
                         % (s, sa["norm_scale"], V, float(res2.value), fixed, Vs))
            x2, missing, unused, _ = transfer.transfer(r.op, np.asarray(res.x, float), r2.op)
            if sa["base"]["type"] == "orderbook" and not missing and s:
                # an order's variable is the executed fraction of its capacity: fraction x of capacity C x s/S in the
                # plain book = fraction x s/S of capacity C in the scaled one
                m2 = r2.op.mapping
                ii = m2.index[m2["asset"] == sa["name"]].unique().values.astype(int)
                x2[ii] = x2[ii] / (s / sa["norm_scale"])
            if missing:
                out.fail("variables of the plain portfolio without counterpart in the scaled problem: %s" % missing[:3])
            else:
                for m in transfer.judge(r2.op, x2, float(res2.value)):
                    out.fail("scaled solution in the plain portfolio with parameters x s/S: " + m)
        else:
            if Vs > V + tol:
                out.fail("free scale in [%g,%g] gives %.9g (s*=%g) but fixed scale %g gives %.9g" % (smin, smax, V, sstar, s, Vs))
            if abs(s - sstar) < 1e-9 and abs(Vs - V) > tol:
                out.fail("value at the returned scale s*=%g is %.9g, reported %.9g" % (sstar, Vs, V))
    f = (smin if spec["kind"] == "pinned" else sstar) / sa["norm_scale"]
    out.label("s/S!=1" if abs(f - 1) > 1e-9 else "s/S=1", "fixed_cost" if sa["fix_costs"] else None, "active" if active else "idle")
    out.nontrivial = active and (abs(f - 1) > 1e-9 or sa["fix_costs"] != 0)


def leaves(a, clip=False, start=None, end=None):
    """the plain assets inside a structured asset (recursively); with clip=True copies whose windows are cut to the
    windows of all wrappers around them"""
    out = []
    if clip:
        if a.get("start") is not None:
            start = a["start"] if start is None else max(start, a["start"])
        if a.get("end") is not None:
            end = a["end"] if end is None else min(end, a["end"])
    for x in a["assets"]:
        if x["type"] == "structured":
            out += leaves(x, clip, start, end)
        elif clip:
            x = copy.deepcopy(x)
            if start is not None:
                x["start"] = start if x.get("start") is None else max(x["start"], start)
            if end is not None:
                x["end"] = end if x.get("end") is None else min(x["end"], end)
            out.append(x)
        else:
            out.append(x)
    return out


def flat_version(spec):
    s2 = copy.deepcopy(spec)
    new = []
    for a in s2["assets"]:
        if a["type"] != "structured":
            new.append(a)
        else:
            new += leaves(a, clip=True)
    s2["assets"] = new
    return s2


def check_structured(spec, out):
    st_ = [a for a in spec["assets"] if a["type"] == "structured"][0]
    r, res = solve_spec(spec)
    if is_err(r.op):
        return out.fail("set-up of a structured asset raised " + r.op.short())
    if is_err(res):
        return out.drop("optimize_error")
    sf = flat_version(spec)
    rf, resf = solve_spec(sf)
    if is_err(rf.op) or is_err(resf):
        return out.drop("flat_error")
    if isinstance(res, str) or isinstance(resf, str):
        if isinstance(res, str) != isinstance(resf, str) and "inaccurate" not in (res, resf):
            out.fail("structured: %s, flat: %s" % (res if isinstance(res, str) else "optimal", resf if isinstance(resf, str) else "optimal"))
        return out if out.violations else out.drop("no_solution")
    V, Vf = float(res.value), float(resf.value)
    tol = 2 * core.tol_val(Vf)
    if abs(V - Vf) > tol:
        out.fail("structured asset: optimum %.9g, flat portfolio of the same assets: %.9g" % (V, Vf))
    name = st_["name"]
    nested = any(x["type"] == "structured" for x in st_["assets"])
    out.label("nested" if nested else None)

    def to_flat(k):
        asset, var, node, t = k
        if asset != name or var is None:
            return k
        # '<variable>__<inner asset>[__<inner structured asset>...]' and '<wrapper>_internal_<node>' per level
        level, v0, n0 = st_, var, node
        while True:
            cands = [x for x in level["assets"] if v0.endswith("__" + x["name"])]
            if not cands:
                return k
            child = max(cands, key=lambda x: len(x["name"]))
            v0 = v0[:-(len(child["name"]) + 2)]
            pref = level["name"] + "_internal_"
            if n0 is not None and n0.startswith(pref):
                n0 = n0[len(pref):]
            if child["type"] != "structured":
                return (child["name"], v0, n0, t)
            level = child
    xf, missing, unused, _ = transfer.transfer(r.op, np.asarray(res.x, float), rf.op, rename=to_flat)
    if missing:
        out.fail("variables of the flat portfolio without counterpart in the structured problem: %s" % missing[:3])
    else:
        for m in transfer.judge(rf.op, xf, Vf):
            out.fail("structured solution in the flat portfolio: " + m)
    o, of = r.output(), rf.output()
    internal_flow = False
    if not is_err(o) and not is_err(of):
        for n in st_["nodes"]:
            col = build.disp_col(spec, name, n)
            if col not in o["dispatch"].columns:
                out.fail("no dispatch column " + col)
                continue
            ext = o["dispatch"][col].values.astype(float)
            # inner dispatch at that node, evaluated in the flat problem at the transferred vector
            from eaopack.optimization import Results
            from eaopack.io import extract_output
            oo = core.eao_call(extract_output, rf.pf, rf.op, Results(V, xf, None), rf.prices)
            if is_err(oo):
                break
            tot = np.zeros(len(ext))
            for x in leaves(st_):
                if n in x["nodes"]:
                    c2 = build.disp_col(sf, x["name"], n)
                    if c2 in oo["dispatch"].columns:
                        tot += oo["dispatch"][c2].values.astype(float)
            if np.abs(ext - tot).max(initial=0) > 1e-5 * (1 + np.abs(tot).max(initial=0)):
                out.fail("external dispatch of the structured asset at node %s %s != sum of its inner assets' dispatch %s" % (n, ext, tot))
            for x in leaves(st_):
                for nn_ in x["nodes"]:
                    if nn_ not in st_["nodes"]:
                        c2 = build.disp_col(sf, x["name"], nn_)
                        if c2 in oo["dispatch"].columns and np.abs(oo["dispatch"][c2].values.astype(float)).max(initial=0) > 1e-5:
                            internal_flow = True
    out.label("internal_flow" if internal_flow else "no_internal_flow",
              "window" if (st_.get("start") is not None or st_.get("end") is not None) else None)
    out.nontrivial = internal_flow


def check(spec):
    out = Outcome()
    out.label("kind:" + spec["kind"])
    if spec["kind"] == "structured":
        check_structured(spec, out)
    else:
        check_scaled(spec, out)
    return out
