"""C14  Split optimisation is consistent with the unsplit problem."""
import numpy as np
from hypothesis import strategies as st

from .. import core, gen, build, obs, lpkit, transfer
from .. import timeline as tl
from ..core import Outcome, is_err
from . import c01

ID = "C14"
LEVEL = "exploration"
EXAMPLES = {"quick": 700, "thorough": 14000}
RULE = ("Generated: portfolios (a) without inter-temporal coupling (contracts with spread and time-varying "
        "capacities, transports, multi-commodity contracts, order books with single-step orders, asset windows) and "
        "(b) plus storages with start level = end level (no inflow together with holding cost); per-asset wacc in "
        "{0,.05,.4}; grids 3-16 steps x freq {h,2h,4h,6h,d,15min} x zone incl. DST dates x start hour; interval size "
        "in {6h,7h,12h,d,2d,W} (horizon aligned or not, partial first/last interval); in 1 of 5 every asset is windowed away from a range of steps (steps or whole intervals without any active asset). Oracle: split value = sum of the "
        "interval optima (each interval problem re-solved by scipy-HiGHS); the (asset,variable,node,step) keys of the "
        "split mapping are a bijection onto those of the unsplit problem and all steps lie on the original grid; the "
        "split solution transferred to the unsplit problem satisfies all its bounds and rows; (a) |V_split - "
        "V_unsplit| <= tol, (b) V_split <= V_unsplit + tol; nodal balance of the split output on the original grid "
        "(C01's oracle); a fifth of the cases are fixed supply/demand profiles with a market in part of the horizon (intervals in which every variable is fixed, balanced or not): a reported solution must not contain an infeasible interval. Non-trivial: >= 2 non-empty intervals and (a partial interval or wacc != 0 or a storage), "
        "with non-zero optimum. Distinct = distinct spec hash.")
RULE += (' Shapes: repeating intervals (same price curve, no discounting, equal lengths; take volumes of a contract differ per interval), daily grids across a daylight-saving switch split into blocks of days / weeks, storages with time blocks whose boundaries contain the interval boundaries (otherwise known finding D60, excluded).')
ASSUMPTIONS = ["an infeasible interval makes the split problem report failure (no further claim)",
               "storages in (b): inflow and holding cost not combined (the constant holding cost of inflow differs by construction)"]

SPLITS = ["6h", "7h", "12h", "d", "d", "2d", "W"]


def blocks_aligned(g, split, b):
    """True if every interval of the split begins on a block boundary of a storage whose blocks of b steps are counted
    from the grid start (then the blocks inside each interval are blocks of the unsplit problem)"""
    import pandas as pd
    pts = [pd.Timestamp(p_) for p_ in tl.points(g)]
    try:
        cuts = pd.date_range(start=pts[0], end=tl.end(g), freq=split)
    except Exception:
        return False
    for c_ in cuts:
        later = [i for i, p_ in enumerate(pts) if p_ >= c_]
        if later and later[0] % b != 0:
            return False
    return True


@st.composite
def _strategy(draw):
    g = draw(gen.grids(min_T=3, max_T=16, freqs=["h", "h", "2h", "4h", "6h", "d", "15min"]))
    nn = draw(st.integers(1, 3))
    nodes = ["n%d" % i for i in range(nn)]
    prices = {"p%d" % i: draw(gen.price_series(g["T"])) for i in range(draw(st.integers(1, 3)))}
    cx = gen.Cx(g, nodes, prices)
    cat = draw(st.sampled_from(["uncoupled", "uncoupled", "storage"]))
    assets = []
    for i in range(draw(st.integers(1, 4))):
        cls = draw(st.sampled_from(["simple", "simple", "transport", "multi", "orderbook"] +
                                   (["storage", "storage"] if cat == "storage" else [])))
        if cls == "orderbook":
            a = gen.a_orderbook(draw, cx, "a%d" % i, n_max=5)
            for o in a["orders"]:
                s = draw(st.integers(-1, g["T"]))
                o[0], o[1] = s, s + 1
        else:
            a = gen.draw_asset(draw, cx, cls, "a%d" % i)
        a["min_take"] = a["max_take"] = None if a["type"] in ("contract", "multi", "exttransport") else None
        if a["type"] == "exttransport":
            a["type"] = "transport"
        for k in ("min_take", "max_take"):
            if a["type"] not in ("contract", "multi"):
                a.pop(k, None)
        if a["type"] == "storage":
            a["end_level"] = a["start_level"]
            a["price"] = None
            if a["inflow"] and a["cost_store"]:
                a["cost_store"] = 0.0
            a["start"] = a["end"] = None
        assets.append(a)
    assets += gen.markets(cx, draw=draw)
    spec = {"grid": g, "prices": cx.prices, "assets": assets, "split": draw(st.sampled_from(SPLITS)), "category": cat}
    spec["excluded_known"] = 0
    if cat == "storage" and g.get("tz") in (None, "UTC") and draw(st.integers(0, 2)) == 0:
        # storages with time blocks (level returns to the start level at every block boundary).  The blocks of the
        # unsplit problem must also be blocks of the intervals - otherwise known finding D60 (excluded, counted)
        for a in assets:
            if a["type"] == "storage" and not a.get("inflow"):
                b = draw(st.integers(1, max(1, g["T"] // 2)))
                if blocks_aligned(g, spec["split"], b):
                    a["block"] = b
                else:
                    spec["excluded_known"] += 1
    if draw(st.integers(0, 4)) == 0:
        # phases that do not touch: steps (possibly whole intervals) in which no asset is active
        spec["gap"] = gen.make_gap(draw, spec)
    return spec


@st.composite
def _fixed_profiles(draw):
    """fixed supply / demand profiles and a market in part of the horizon: intervals in which every variable is
    fixed, balanced or not (generator shared with C03)"""
    from . import c03
    spec = draw(c03._profiles())
    spec["split"] = draw(st.sampled_from(["6h", "12h", "d", "d"]))
    spec["category"] = "uncoupled"
    return spec


@st.composite
def _repeating(draw):
    """intervals that look alike: the same price curve in every interval, no discounting, equal interval lengths -
    cost vector and bounds of all interval problems coincide; what differs are the take volumes of a contract per
    interval (right-hand sides only) or a capacity given per interval"""
    m = draw(st.sampled_from([3, 4, 6]))
    k = draw(st.integers(2, 4))
    T = m * k
    g = {"start": draw(st.sampled_from(["2021-01-30 00:00", "2021-06-15 06:00"])), "T": T, "freq": "h", "mtu": "h",
         "tz": draw(st.sampled_from([None, "UTC"]))}
    def tiled():
        return draw(st.lists(gen.dyadic(0, 12), min_size=m, max_size=m)) * k
    prices = {"p0": tiled(), "psell": tiled(), "pbuy": [16.0] * T}
    cap = 4.0
    takes_hi = [[j * m, (j + 1) * m, cap * m * draw(st.sampled_from([0.25, 0.5, 0.75, 1.0]))] for j in range(k)]
    takes_lo = [[j * m, (j + 1) * m, cap * m * draw(st.sampled_from([0.0, 0.0, 0.125, 0.25]))] for j in range(k)]
    c = {"type": "contract", "name": "c", "nodes": ["n0"], "price": "p0", "min_cap": 0.0, "max_cap": cap,
         "extra_costs": 0.0, "wacc": 0.0, "max_take": takes_hi, "min_take": takes_lo if draw(st.booleans()) else None}
    assets = [c,
              {"type": "simple", "name": "sell", "nodes": ["n0"], "price": "psell", "min_cap": -8.0, "max_cap": 0.0, "extra_costs": 0.0, "wacc": 0.0},
              {"type": "simple", "name": "buy", "nodes": ["n0"], "price": "pbuy", "min_cap": 0.0, "max_cap": 8.0, "extra_costs": 0.0, "wacc": 0.0}]
    return {"grid": g, "prices": prices, "assets": assets, "split": "%dh" % m, "category": "uncoupled", "shape": "repeating"}


@st.composite
def _daily_dst(draw):
    """steps of unequal length: daily steps across a daylight-saving switch, split into blocks of days / weeks"""
    tz, date = draw(st.sampled_from([("CET", "2021-03-2%d" % d) for d in (5, 6, 7)] + [("Europe/London", "2021-03-26"),
                                    ("America/New_York", "2021-03-12"), ("CET", "2021-10-29"), ("America/New_York", "2021-11-05")]))
    T = draw(st.integers(5, 14))
    g = {"start": date + " 00:00", "T": T, "freq": "d", "mtu": draw(st.sampled_from(["h", "d"])), "tz": tz}
    nodes = ["n0", "n1"][:draw(st.integers(1, 2))]
    prices = {"p%d" % i: draw(gen.price_series(T)) for i in range(2)}
    cx = gen.Cx(g, nodes, prices)
    assets = []
    for i in range(draw(st.integers(1, 3))):
        cls = draw(st.sampled_from(["simple", "simple", "transport"] if len(nodes) > 1 else ["simple"]))
        a = gen.draw_asset(draw, cx, cls, "a%d" % i)
        if a["type"] == "exttransport":
            a["type"] = "transport"
            a.pop("min_take", None); a.pop("max_take", None)
        assets.append(a)
    assets += gen.markets(cx, draw=draw)
    return {"grid": g, "prices": cx.prices, "assets": assets, "split": draw(st.sampled_from(["2d", "3d", "7d", "W"])),
            "category": "uncoupled", "shape": "daily_dst"}


def strategy(tier):
    return st.one_of(_strategy(), _strategy(), _strategy(), _strategy(), _fixed_profiles(), _repeating(), _daily_dst())


def check(spec):
    out = Outcome()
    out.label("category:" + spec["category"], "interval:" + spec["split"], "gap" if spec.get("gap") else None,
              "fixed_profiles" if spec.get("profiles") else None, ("shape:" + spec["shape"]) if spec.get("shape") else None)
    g = spec["grid"]
    if g.get("tz") and not (build._wall_ok(tl.end(g), g["tz"]) and build._wall_ok(tl.point(g, 0), g["tz"])):
        return out.drop("ambiguous_wall_time")     # pandas cannot build the interval range to such an end
    if g.get("tz"):
        # the same precondition in general: pandas itself must be able to build the range of interval boundaries
        # (an anchored size such as 'W' makes it roll the end's wall time back to the anchor day, where it may not exist)
        import pandas as pd
        grid_ = build.build_grid(g)
        try:
            pd.date_range(start=grid_.start, end=grid_.end, freq=spec["split"], tz=grid_.tz)
        except Exception as e:
            if type(e).__name__ in ("NonExistentTimeError", "AmbiguousTimeError"):
                return out.drop("pandas_interval_range_fails")
    rs = obs.Run(spec, split=spec["split"])
    if is_err(rs.op):
        return out.fail("setup_split_optim_problem raised " + rs.op.short())
    ru = obs.Run(spec)
    if is_err(ru.op):
        return out.drop("unsplit_setup_error:" + ru.op.kind)
    ops = rs.op.ops
    out.label("intervals:%d" % min(len(ops), 5))
    refs = [lpkit.solve(lpkit.from_op(o)) for o in ops]
    res = rs.optimize()
    if is_err(res):
        return out.fail("split optimize raised " + res.short())
    if isinstance(res, str):
        if res != "inaccurate" and all(r[0] == "optimal" for r in refs):
            return out.fail("split optimize reports '%s' although every interval is feasible" % res)
        return out.drop("interval_infeasible" if res != "inaccurate" else "inaccurate")
    if any(r[0] == "infeasible" for r in refs):
        # a solution is reported although an interval has none: the slice of x must then violate that interval's problem
        pos = 0
        xs_all = np.asarray(res.x, float)
        for k, (o_, r_) in enumerate(zip(ops, refs)):
            n_ = len(o_.c)
            if r_[0] == "infeasible" and pos + n_ <= len(xs_all):
                raw_ = lpkit.from_op(o_)
                worst, where = lpkit.residual(raw_, xs_all[pos:pos + n_])
                if worst > 20 * core.tol_feas(raw_.scale()):
                    return out.fail("split optimize returns a solution although interval %d is infeasible: its part of x violates %s by %g"
                                    % (k, where, worst))
                out.label("reference_wrongly_infeasible")
            pos += n_
    resu = ru.optimize()
    if is_err(resu) or isinstance(resu, str):
        return out.drop("unsplit_no_solution")
    Vs, Vu = float(res.value), float(resu.value)
    x = np.asarray(res.x, float)
    tot = sum(r[2] for r in refs)
    tv = core.tol_val(tot) * (1 + len(ops)) + 1e-7 * float(np.abs(rs.op.c * x).sum())
    if abs(Vs - tot) > tv:
        out.fail("split value %.9g is not the sum of the interval optima %.9g" % (Vs, tot))
    if len(x) != sum(len(o.c) for o in ops):
        out.fail("split x has %d entries, the interval problems %d variables" % (len(x), sum(len(o.c) for o in ops)))
        return out
    # mapping: keys and steps
    T = spec["grid"]["T"]
    ts = rs.op.mapping["time_step"].values
    if not all(0 <= int(t) < T for t in ts):
        out.fail("split mapping has time steps outside the original grid: %s" % sorted(set(int(t) for t in ts))[:8])
    ks, _, dups = transfer.keys_of(rs.op)
    ku, _, dupu = transfer.keys_of(ru.op)
    if dups:
        out.fail("split mapping: several variables share the key %s" % (dups[0],))
    xu, missing, unused, _ = transfer.transfer(rs.op, x, ru.op)
    if missing:
        out.fail("variables of the unsplit problem have no counterpart in the split problem: %s" % missing[:3])
        return out
    raw = lpkit.from_op(ru.op)
    worst, where = lpkit.residual(raw, xu)
    tf = 20 * core.tol_feas(raw.scale())
    if worst > tf:
        out.fail("split dispatch violates the unsplit problem: %s by %g" % (where, worst))
    val = float(-raw.c @ xu)
    if abs(val - Vs) > tv:
        out.fail("split solution is worth %.9g in the unsplit problem but the split value is %.9g (discounting / costs "
                 "differ between interval and full problem)" % (val, Vs))
    if spec["category"] == "uncoupled":
        if abs(Vs - Vu) > tv + core.tol_val(Vu):
            out.fail("nothing couples the intervals but split optimum %.9g != unsplit optimum %.9g" % (Vs, Vu))
    else:
        if Vs > Vu + tv + core.tol_val(Vu):
            out.fail("split optimum %.9g exceeds the unsplit optimum %.9g" % (Vs, Vu))
    o = rs.output()
    if is_err(o):
        return out.fail("extract_output on the split problem raised " + o.short())
    scale = max(lpkit.from_op(p).scale() for p in ops)
    for m in c01.balance_violations(spec, o["dispatch"], scale, rs.grid.timepoints):
        out.fail("split output: " + m)
    sizes = [len(set(int(t) for t in op_.mapping["time_step"].values)) for op_ in ops]
    partial = len(set(sizes)) > 1
    feats = partial or any(a.get("wacc") for a in spec["assets"]) or spec["category"] == "storage"
    out.label("partial_interval" if partial else None)
    out.nontrivial = len(ops) >= 2 and feats and abs(Vs) > 1e-6
    return out
