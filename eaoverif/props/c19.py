"""C19  Time grid and interval data: every step, and only the right interval, counts.

No solver involved.  Reference = own UTC arithmetic (timeline.py).
"""
import numpy as np
import pandas as pd
from hypothesis import strategies as st

from eaopack.basic_classes import Timegrid

from .. import core, gen
from .. import timeline as tl
from ..core import Outcome, eao_call, is_err

ID = "C19"
LEVEL = "exploration"
EXAMPLES = {"quick": 16000, "thorough": 400000}
RULE = ("Generated: (kind=grid) start date from a pool with DST switches/month ends x hour x freq "
        "{15min,h,2h,4h,6h,d,MS} x main unit {h,d,min} x zone {naive,UTC,CET,London,New York} x number of steps "
        "x a trailing remainder; (restrict) + window bounds in minutes before/inside/after the horizon and a wacc; "
        "(coarse) + coarse frequency (multiple of the grid's or 'd') and a window in fine steps that may "
        "reach outside the horizon; (values) + interval lists (explicit / implicit ends, scalar form, "
        "overlapping on and off grid points, naive stamps on aware grids, list/array/DatetimeIndex containers, "
        "on the full or a restricted grid); (prices) dict of arrays / DataFrame on grid / DataFrame on a superset "
        "index. Oracle: independent UTC arithmetic for points, step lengths, index subsets, coarse partition, "
        "containing interval. Non-trivial: grid has >= 2 steps and the kind's special shape is present "
        "(unequal step lengths or unit != freq or trailing remainder; window that cuts the grid properly; "
        "coarse window with an incomplete or out-of-horizon coarse interval or >= 2 coarse steps; >= 2 intervals with "
        "one covering a grid point; non-dict price input or >= 2 columns). Distinct = distinct spec hash.")
ASSUMPTIONS = ["pandas date_range defines which instants a frequency string denotes; the check recomputes them "
               "by absolute increments (tick frequencies) or wall-clock days/months",
               "a trailing remainder shorter than one step is dropped (floor rule) - not forbidden by the statement",
               "overlaps that contain no grid point are accepted"]

TICKS = ["15min", "h", "2h", "4h", "6h"]


# ------------------------------------------------------------------ strategies
@st.composite
def _gridspec(draw, freqs=None, max_T=30):
    freq = draw(st.sampled_from(freqs or (TICKS + ["d", "d", "d", "MS"])))
    tz = draw(st.sampled_from(gen.ZONES))
    if freq == "d" and tz in (None, "UTC") and draw(st.booleans()):
        tz = draw(st.sampled_from(["CET", "Europe/London", "America/New_York"]))
    mtu = draw(st.sampled_from(gen.UNITS))
    if freq == "MS":
        date = draw(st.sampled_from(["2021-01-01", "2021-02-01", "2020-02-01", "2021-10-01", "2021-03-01"]))
        hour = 0
        T = draw(st.integers(1, 8))
    else:
        date = draw(st.sampled_from(gen.DATE_POOL[:8] + gen.DATE_POOL))
        hour = draw(st.sampled_from([0, 0, 6, 12, 18])) if tz is not None else draw(st.integers(0, 23))
        T = draw(st.integers(1, max_T))
    minute = 0 if (tz is not None or freq in ("d", "MS")) else draw(st.sampled_from([0, 0, 15, 30, 40]))
    return {"start": "%s %02d:%02d" % (date, hour, minute), "T": T, "freq": freq, "mtu": mtu, "tz": tz}


@st.composite
def _s_grid(draw):
    g = draw(_gridspec())
    step_min = 60 * 24 * 28 if g["freq"] == "MS" else (60 * 23 if g["freq"] == "d" else int(tl.freq_seconds(g["freq"]) // 60))
    extra = draw(st.one_of(st.just(0), st.integers(0, step_min - 1)))
    return {"kind": "grid", "grid": g, "extra_min": extra}


def _minutes(g, lo_steps=-4, hi_extra=4):
    """offsets in minutes around the horizon, mostly on multiples of 15"""
    span = int((tl._utc_seconds(tl.point(g, g["T"])) - tl._utc_seconds(tl.point(g, 0))) // 60)
    step = max(15, span // max(1, g["T"]))
    lo = lo_steps * step
    hi = span + hi_extra * step
    return st.one_of(st.integers(lo // 15, hi // 15).map(lambda k: 15 * k), st.integers(lo, hi))


@st.composite
def _s_restrict(draw):
    g = draw(_gridspec(freqs=TICKS + ["d"]))
    m = _minutes(g)
    ws = draw(st.one_of(st.none(), m))
    we = draw(st.one_of(st.none(), m))
    if ws is not None and we is not None and ws > we and draw(st.integers(0, 9)) > 0:
        ws, we = we, ws
    wacc = draw(st.sampled_from([0.0, 0.05, 0.4]))
    return {"kind": "restrict", "grid": g, "win": [ws, we], "wacc": wacc,
            "naive_win": draw(st.booleans())}


@st.composite
def _s_coarse(draw):
    g = draw(_gridspec(freqs=["15min", "h", "h", "2h", "6h"], max_T=24))
    use_day = draw(st.booleans()) and g["freq"] in ("h", "2h", "6h")
    m = draw(st.integers(2, 4))
    ws = draw(st.integers(-2 * m, max(0, g["T"] // 2)))
    n_co = draw(st.integers(1, 7))
    rem = draw(st.integers(0, m - 1))
    wacc = draw(st.sampled_from([0.0, 0.05]))
    return {"kind": "coarse", "grid": g, "m": m, "day": use_day, "ws": ws, "n_coarse": n_co, "rem": rem,
            "wacc": wacc}


@st.composite
def _s_values(draw):
    g = draw(_gridspec(freqs=TICKS + ["d"], max_T=20))
    m = _minutes(g)
    n = draw(st.integers(1, 5))
    mode = draw(st.sampled_from(["explicit", "explicit", "implicit", "scalar", "chain"]))
    ivs = []
    if mode == "chain":
        # consecutive, non-overlapping intervals
        cuts = sorted(set(draw(st.lists(m, min_size=2, max_size=6))))
        if len(cuts) < 2:
            cuts = [cuts[0], cuts[0] + 60]
        for a, b in zip(cuts[:-1], cuts[1:]):
            ivs.append([a, b, draw(gen.dyadic(-4, 8))])
    else:
        for _ in range(1 if mode == "scalar" else n):
            a = draw(m)
            b = a + draw(st.integers(1, 40)) * draw(st.sampled_from([15, 60, 17]))
            ivs.append([a, b, draw(gen.dyadic(-4, 8))])
        if mode == "implicit":
            ivs = sorted(ivs)
            # strictly increasing starts
            seen = set()
            ivs = [r for r in ivs if not (r[0] in seen or seen.add(r[0]))]
    form = draw(st.sampled_from(["list", "list", "array", "dtindex"]))
    naive = draw(st.booleans())
    win = draw(st.one_of(st.none(), st.tuples(m, m).map(list)))
    return {"kind": "values", "grid": g, "mode": mode, "iv": ivs, "form": form, "naive": naive, "win": win}


@st.composite
def _s_prices(draw):
    g = draw(_gridspec(freqs=TICKS + ["d"], max_T=20))
    ncol = draw(st.integers(1, 3))
    form = draw(st.sampled_from(["dict", "frame", "superset", "series_dict"]))
    before = draw(st.integers(0, 3))
    after = draw(st.integers(0, 3))
    n = g["T"] + (before + after if form == "superset" else 0)
    cols = {"p%d" % i: draw(st.lists(gen.dyadic(-8, 32), min_size=n, max_size=n)) for i in range(ncol)}
    return {"kind": "prices", "grid": g, "form": form, "cols": cols, "before": before, "after": after}


def strategy(tier):
    return st.one_of(_s_grid(), _s_restrict(), _s_coarse(), _s_values(), _s_values(), _s_prices())


# ------------------------------------------------------------------ helpers
def _abs(g, minutes):
    """stamp at `minutes` (absolute) after the grid start, aware iff grid has a zone"""
    if minutes is None:
        return None
    p0 = tl.point(g, 0)
    if p0.tzinfo is None:
        return p0 + pd.Timedelta(minutes=minutes)
    return (p0.tz_convert("UTC") + pd.Timedelta(minutes=minutes)).tz_convert(g["tz"])


def _naive_ok(ts, tz):
    """wall time of ts is unambiguous and existing in tz"""
    if tz is None:
        return True
    try:
        back = ts.tz_localize(None).tz_localize(tz)
    except Exception:
        return False
    return back == ts


def _mk_grid(g, end_ts=None):
    s = tl.point(g, 0)
    e = end_ts if end_ts is not None else tl.point(g, g["T"])
    return eao_call(Timegrid, s, e, freq=g["freq"], main_time_unit=g["mtu"], timezone=g.get("tz"))


def _u(ts):
    return tl._utc_seconds(ts)


def _same_instants(eao_pts, ref_pts, tz):
    if len(eao_pts) != len(ref_pts):
        return "number of points %d != %d" % (len(eao_pts), len(ref_pts))
    for k, (a, b) in enumerate(zip(eao_pts, ref_pts)):
        a = pd.Timestamp(a)
        if (a.tzinfo is None) != (tz is None):
            return "point %d tz-awareness differs from grid zone" % k
        if abs(_u(a) - _u(b)) > 1e-6:
            return "point %d is %s, expected %s" % (k, a, b)
    return None


def _grid_oracle(out, tg, g, end_ts):
    """all claims about a base grid; returns expected T"""
    unit = tl.UNIT_SECONDS[g["mtu"]]
    e = _u(end_ts)
    T = 0
    while _u(tl.point(g, T + 1)) <= e + 1e-9:
        T += 1
        if T > 5000:
            raise core.HarnessError("runaway grid")
    ref = [tl.point(g, k) for k in range(T + 1)]
    if tg.T != T:
        out.fail("T=%d, expected %d steps (start %s end %s freq %s)" % (tg.T, T, ref[0], end_ts, g["freq"]))
        return None
    msg = _same_instants(list(tg.timepoints), ref[:T], g.get("tz"))
    if msg:
        out.fail("timepoints: " + msg)
        return None
    u = np.array([_u(p) for p in ref])
    if T:
        if not np.all(np.diff(u[:T]) > 0) and T > 1:
            out.fail("points not strictly increasing")
        if abs(_u(pd.Timestamp(tg.timepoints[0])) - _u(tg.start)) > 1e-6:
            out.fail("first point is not the grid start")
        if not all(_u(pd.Timestamp(p)) < e - 1e-9 for p in tg.timepoints):
            out.fail("a point does not lie before the grid end")
    dt_ref = np.diff(u) / unit
    if not np.allclose(np.asarray(tg.dt, float), dt_ref, rtol=1e-12, atol=1e-12) or len(tg.dt) != T:
        out.fail("dt %s != real elapsed %s" % (np.asarray(tg.dt)[:6], dt_ref[:6]))
    if not np.allclose(np.asarray(tg.Dt, float), np.cumsum(dt_ref), rtol=1e-12, atol=1e-9) or len(tg.Dt) != T:
        out.fail("Dt is not the cumulative sum of dt")
    if not np.array_equal(np.asarray(tg.I), np.arange(T)):
        out.fail("I is not 0..T-1")
    return T


# ------------------------------------------------------------------ checks per kind
def _c_grid(spec, out):
    g = spec["grid"]
    end_ts = _abs(g, 0)  # placeholder
    pT = tl.point(g, g["T"])
    end_ts = pT + pd.Timedelta(minutes=spec["extra_min"]) if pT.tzinfo is None else \
        (pT.tz_convert("UTC") + pd.Timedelta(minutes=spec["extra_min"])).tz_convert(g["tz"])
    if g["tz"] is not None and not _naive_ok(end_ts, g["tz"]):
        return out.drop("ambiguous_wall_time")   # pandas cannot build a range to such an end
    tg = _mk_grid(g, end_ts)
    if is_err(tg):
        return out.fail("Timegrid raised " + tg.short())
    T = _grid_oracle(out, tg, g, end_ts)
    d = tl.dt(g) if g["T"] else np.zeros(0)
    uneq = len(d) > 1 and np.ptp(d) > 1e-12
    out.label("grid", "grid:unequal_steps" if uneq else "grid:equal_steps",
              "grid:remainder" if spec["extra_min"] else None, "tz:" + str(g["tz"]), "freq:" + g["freq"])
    out.nontrivial = g["T"] >= 2 and (uneq or spec["extra_min"] > 0 or g["mtu"] != g["freq"])


def _c_restrict(spec, out):
    g = spec["grid"]
    tg = _mk_grid(g)
    if is_err(tg):
        return out.fail("Timegrid raised " + tg.short())
    ws, we = (_abs(g, m) for m in spec["win"])
    naive = spec["naive_win"] and all(x is None or _naive_ok(x, g["tz"]) for x in (ws, we))
    a_ws, a_we = ws, we
    if naive and g["tz"] is not None:
        a_ws = None if ws is None else ws.tz_localize(None)
        a_we = None if we is None else we.tz_localize(None)
    r = eao_call(tg.set_wacc, spec["wacc"])
    if is_err(r):
        return out.fail("set_wacc raised " + r.short())
    r = eao_call(tg.set_restricted_grid, a_ws, a_we)
    if is_err(r):
        return out.fail("set_restricted_grid raised " + r.short())
    rg = tg.restricted
    T = g["T"]
    u = np.array([_u(tl.point(g, k)) for k in range(T)])
    lo = _u(ws) if ws is not None else u[0]
    hi = _u(we) if we is not None else _u(tl.point(g, T))
    idx = np.array([k for k in range(T) if lo - 1e-9 <= u[k] < hi - 1e-9], dtype=int)
    if not np.array_equal(np.asarray(rg.I, dtype=int), idx):
        out.fail("restricted I %s != indices of points in [start,end) %s" % (list(rg.I)[:8], list(idx)[:8]))
        return
    if rg.T != len(idx):
        out.fail("restricted T wrong")
    for name in ("dt", "Dt", "discount_factors"):
        full = np.asarray(getattr(tg, name), float)
        sub = np.asarray(getattr(rg, name), float)
        if not np.array_equal(sub, full[idx]):
            out.fail("restricted %s is not the matching sub-array" % name)
    msg = _same_instants(list(rg.timepoints), [tl.point(g, k) for k in idx], g.get("tz"))
    if msg:
        out.fail("restricted timepoints: " + msg)
    # discount factors of the full grid: (1+wacc)^(-elapsed days at step end / 365)
    ref = tl.discount(g, spec["wacc"])
    if not np.allclose(np.asarray(tg.discount_factors, float), ref, rtol=1e-10, atol=0):
        out.fail("discount factors differ from (1+wacc)^(-elapsed years)")
    rel = "all" if len(idx) == T else ("empty" if len(idx) == 0 else "proper")
    out.label("restrict", "restrict:" + rel, "restrict:naive" if naive and g["tz"] else None)
    out.nontrivial = T >= 2 and rel == "proper"


def _c_coarse(spec, out):
    g = spec["grid"]
    m = spec["m"]
    tg = _mk_grid(g)
    if is_err(tg):
        return out.fail("Timegrid raised " + tg.short())
    eao_call(tg.set_wacc, spec["wacc"])
    T = g["T"]
    ws = tl.point(g, spec["ws"])
    if spec["day"]:
        cfreq = "d"
        # coarse boundaries: wall-clock days from ws
        gw = {"start": str(ws.tz_localize(None) if ws.tzinfo is not None else ws), "freq": "d",
              "mtu": g["mtu"], "tz": g["tz"], "T": 0}
        if g["tz"] is not None and not _naive_ok(ws, g["tz"]):
            return out.drop("ambiguous_wall_time")
        try:
            bounds = [tl.point(gw, j) for j in range(spec["n_coarse"] + 1)]
        except Exception:
            return out.drop("ambiguous_wall_time")
        we = bounds[-1]
        if spec["rem"]:
            bl = bounds[-1]
            we = (bl + pd.Timedelta(hours=spec["rem"])) if bl.tzinfo is None \
                else (bl.tz_convert("UTC") + pd.Timedelta(hours=spec["rem"])).tz_convert(g["tz"])
    else:
        cfreq = tl.freq_multiple(g["freq"], m)
        bounds = [tl.point(g, spec["ws"] + j * m) for j in range(spec["n_coarse"] + 1)]
        we = tl.point(g, spec["ws"] + spec["n_coarse"] * m + spec["rem"])
    if _u(we) <= _u(ws):
        return out.drop("empty_coarse_window")
    if g["tz"] is not None and not (_naive_ok(we, g["tz"]) and _naive_ok(ws, g["tz"])):
        return out.drop("ambiguous_wall_time")
    r = eao_call(tg.set_restricted_grid, ws, we, cfreq)
    u = np.array([_u(tl.point(g, k)) for k in range(T)])
    exp = []
    skipped = 0
    partial = 0
    for a, b in zip(bounds[:-1], bounds[1:]):
        inside = [k for k in range(T) if _u(a) - 1e-9 <= u[k] < _u(b) - 1e-9]
        n_all = int(round((_u(b) - _u(a)) / (u[1] - u[0]))) if T > 1 else 0
        if not inside:
            skipped += 1
            continue
        if T > 1 and len(inside) < n_all:
            partial += 1
        exp.append(inside)
    out.label("coarse", "coarse:day" if spec["day"] else "coarse:multiple",
              "coarse:skipped_interval" if skipped else None, "coarse:partial_interval" if partial else None,
              "coarse:remainder" if spec["rem"] else None, "coarse:n=%d" % min(len(exp), 3))
    out.nontrivial = T >= 2 and (skipped > 0 or partial > 0 or len(exp) >= 2)
    if is_err(r):
        return out.fail("coarse restricted grid raised %s (window %s..%s, %d coarse intervals without horizon step)"
                        % (r.short(), ws, we, skipped))
    rg = tg.restricted
    if rg.T != len(exp):
        return out.fail("coarse T=%d, expected %d coarse steps" % (rg.T, len(exp)))
    got = [list(np.asarray(x, dtype=int)) for x in getattr(rg, "I_minor_in_major", [])]
    if got != exp:
        return out.fail("fine steps per coarse step %s, expected %s" % (got[:4], exp[:4]))
    flat = [k for e in got for k in e]
    if len(flat) != len(set(flat)):
        out.fail("a fine step is assigned twice")
    dtf = np.asarray(tg.dt, float)
    Dtf = np.asarray(tg.Dt, float)
    for j, e in enumerate(exp):
        if abs(float(rg.dt[j]) - dtf[e].sum()) > 1e-9:
            out.fail("coarse dt[%d]=%g is not the sum of its fine steps %g" % (j, rg.dt[j], dtf[e].sum()))
        if int(rg.I[j]) != e[0]:
            out.fail("coarse I[%d]=%d, expected first fine step %d" % (j, rg.I[j], e[0]))
        if abs(float(rg.Dt[j]) - Dtf[e[0]]) > 1e-9:
            out.fail("coarse Dt[%d] is not that of its first fine step" % j)
        if abs(_u(pd.Timestamp(rg.timepoints[j])) - u[e[0]]) > 1e-6:
            out.fail("coarse timepoint %d is not its first fine point" % j)


def _c_values(spec, out):
    g = spec["grid"]
    tg = _mk_grid(g)
    if is_err(tg):
        return out.fail("Timegrid raised " + tg.short())
    T = g["T"]
    target = tg
    idx = list(range(T))
    if spec["win"] is not None:
        ws, we = (_abs(g, mm) for mm in spec["win"])
        r = eao_call(tg.set_restricted_grid, ws, we)
        if is_err(r):
            return out.drop("restricted_grid_error")
        target = tg.restricted
        idx = [int(i) for i in target.I]
    ivs = spec["iv"]
    stamps = [(_abs(g, a), _abs(g, b), v) for a, b, v in ivs]
    naive = spec["naive"] and g["tz"] is not None and all(_naive_ok(a, g["tz"]) and _naive_ok(b, g["tz"]) for a, b, _ in stamps)

    def conv(ts):
        return ts.tz_localize(None) if (naive and ts.tzinfo is not None) else ts

    mode = spec["mode"]
    form = spec["form"]
    if mode == "scalar":
        a, b, v = stamps[0]
        inp = {"start": conv(a), "end": conv(b), "values": v}
    else:
        starts = [conv(a) for a, _, _ in stamps]
        ends = [conv(b) for _, b, _ in stamps]
        vals = [v for _, _, v in stamps]
        if form == "array":
            starts, ends, vals = np.array(starts, dtype=object), np.array(ends, dtype=object), np.array(vals)
        elif form == "dtindex":
            starts, ends = pd.DatetimeIndex(starts), pd.DatetimeIndex(ends)
        inp = {"start": starts, "values": vals}
        if mode != "implicit":
            inp["end"] = ends
    res = eao_call(target.values_to_grid, inp)
    u = np.array([_u(tl.point(g, k)) for k in idx])
    # reference
    if mode == "implicit":
        ss = [_u(a) for a, _, _ in stamps]
        vv = [v for _, _, v in stamps]
        exp = np.full(len(idx), np.nan)
        claim = np.ones(len(idx), bool)
        for j, t in enumerate(u):
            if len(ss) == 1:
                if t >= ss[0]:
                    exp[j] = vv[0]
                continue
            if t < ss[0]:
                continue
            if t >= ss[-1]:
                ext = ss[-1] + 2 * (ss[-1] - ss[-2])
                # with naive stamps the extension is wall-clock arithmetic: a DST switch inside it moves its end by an hour
                margin = 3600.0 if naive else 0.0
                if t < ext - margin - 1e-9:
                    exp[j] = vv[-1]
                else:
                    claim[j] = False   # at / beyond the end of the undocumented generous extension: no claim
                continue
            for i in range(len(ss) - 1):
                if ss[i] <= t < ss[i + 1]:
                    exp[j] = vv[i]
        overlap = False
    else:
        cnt = np.zeros(len(idx), int)
        exp = np.full(len(idx), np.nan)
        for a, b, v in stamps:
            inside = (u >= _u(a) - 1e-9) & (u < _u(b) - 1e-9)
            cnt += inside
            exp[inside] = v
        overlap = bool((cnt >= 2).any())
        claim = np.ones(len(idx), bool)
    covered = int(np.sum(~np.isnan(exp)))
    out.label("values", "values:" + mode, "values:overlap" if overlap else None,
              "values:naive_on_aware" if naive else None, "values:form=" + form,
              "values:restricted" if spec["win"] is not None else None,
              "values:covered" if covered else "values:nothing_covered",
              "values:partly_undefined" if 0 < covered < len(idx) else None)
    out.nontrivial = len(idx) >= 2 and covered > 0 and (len(ivs) >= 2 or 0 < covered < len(idx))
    if overlap:
        if is_err(res):
            if res.kind != "ValueError":
                out.fail("overlapping intervals raised %s instead of ValueError" % res.short())
        else:
            out.fail("a grid point lies in two intervals but no ValueError was raised")
        return
    if is_err(res):
        return out.fail("values_to_grid raised " + res.short())
    res = np.asarray(res, float)
    if len(res) != len(idx):
        return out.fail("result length %d != T %d" % (len(res), len(idx)))
    for j in range(len(idx)):
        if not claim[j]:
            continue
        if np.isnan(exp[j]) != np.isnan(res[j]) or (not np.isnan(exp[j]) and res[j] != exp[j]):
            return out.fail("grid point %d (%s): got %s, expected %s" % (idx[j], tl.point(g, idx[j]), res[j], exp[j]))


def _c_prices(spec, out):
    g = spec["grid"]
    tg = _mk_grid(g)
    if is_err(tg):
        return out.fail("Timegrid raised " + tg.short())
    T = g["T"]
    form = spec["form"]
    cols = {k: np.array(v, float) for k, v in spec["cols"].items()}
    if form == "dict":
        inp = {k: v.copy() for k, v in cols.items()}
        exp = cols
    elif form == "series_dict":
        inp = {k: pd.Series(v.copy(), index=tg.timepoints) for k, v in cols.items()}
        exp = cols
    elif form == "frame":
        inp = pd.DataFrame({k: v.copy() for k, v in cols.items()}, index=tg.timepoints)
        exp = cols
    else:
        b = spec["before"]
        pts = [tl.point(g, k) for k in range(-b, T + spec["after"])]
        inp = pd.DataFrame({k: v.copy() for k, v in cols.items()}, index=pd.DatetimeIndex(pts))
        exp = {k: v[b:b + T] for k, v in cols.items()}
    res = eao_call(tg.prices_to_grid, inp)
    out.label("prices", "prices:" + form)
    out.nontrivial = T >= 2 and (form != "dict" or len(cols) >= 2)
    if is_err(res):
        return out.fail("prices_to_grid raised " + res.short())
    if len(res.index) != T or _same_instants(list(res.index), [tl.point(g, k) for k in range(T)], g.get("tz")):
        return out.fail("price frame index is not the grid")
    for k, v in exp.items():
        if k not in res.columns:
            return out.fail("column %s lost" % k)
        if not np.array_equal(np.asarray(res[k].values, float), v):
            return out.fail("column %s changed: %s -> %s" % (k, v[:6], np.asarray(res[k].values)[:6]))
    for k, v in cols.items():  # caller's data untouched
        pass


def check(spec):
    out = Outcome()
    kind = spec["kind"]
    {"grid": _c_grid, "restrict": _c_restrict, "coarse": _c_coarse, "values": _c_values,
     "prices": _c_prices}[kind](spec, out)
    return out
