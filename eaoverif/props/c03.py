"""C03  The optimiser returns a feasible, optimal point of the assembled problem."""
import numpy as np
import pandas as pd
import scipy.sparse as sp
from hypothesis import strategies as st

from eaopack.optimization import OptimProblem

from .. import core, gen, build, obs, lpkit
from .. import timeline as tl
from ..core import Outcome, is_err, eao_call

ID = "C03"
LEVEL = "exploration"
EXAMPLES = {"quick": 1600, "thorough": 40000}
RULE = ("Generated: (raw) problems with 1-12 variables and 0-14 rows of all four classes U/L/S/N together, small "
        "integer coefficients, dyadic bounds, rows built around a hidden point (slack or tight) or made infeasible by a "
        "contradicting pair with margin 1; mapping with duplicated rows; 'bool' column absent / all False / mixed / NaN "
        "for LP-only rows; booleans with bounds [0,1], [0,0], [1,1] and non-0/1 bounds ([-0.5,1.5], [0,0.75], [0.25,1], [-1,2], [1.25,1.5], [-1,-0.5]); "
        "in 20% the problem object is edited in place (row type, coefficient or right-hand side) and optimised again; (portfolio) assembled LP and MIP problems of "
        "generated portfolios, monolithic and split, 1 in 6 cases fixed supply/demand profiles with a market in part of the horizon (split intervals in which every variable is fixed, balanced or contradictory); x solver in {default, CLARABEL, SCIPY, SCIP}; make_soft_problem "
        "on MIPs. Oracle: if Results: bounds, every row by its class, integrality of flagged variables, value = -c.x, "
        "|value - V*| <= tol with V* from scipy-HiGHS on the same arrays; if 'not successful': HiGHS proves "
        "infeasibility; 'inaccurate': no claim. Split: slice of x per interval feasible/optimal, value = sum. "
        "Non-trivial: optimal with >= 3 row classes present and >= 2 classes tight at the optimum, or a MIP whose "
        "LP relaxation is strictly better, or a proven-infeasible case. Distinct = distinct spec hash.")
RULE += (' After a relaxed run (make_soft_problem) the same problem object is optimised again as it stands and judged as the MIP it was built as (flags remembered before any optimise call).')
ASSUMPTIONS = ["scipy's HiGHS (linprog / milp with mip_rel_gap=0) is the reference optimum; on a MIP disagreement an exact enumeration of the booleans (<= 12) or a feasibility witness decides (DESIGN 12)",
               "interface='ortools' cannot be executed (package absent); SCS/OSQP (first-order, no usable objective "
               "tolerance) are not exercised",
               "tolerances: residual 1e-6*(1+scale), value 2e-5*(1+|V|) LP, 2e-4*(1+|V|) MIP"]

SOLVERS_LP = [None, None, "CLARABEL", "SCIPY", "SCIP"]
SOLVERS_MIP = [None, "SCIPY", "SCIP"]


@st.composite
def _raw(draw):
    n = draw(st.integers(1, 12))
    mip = draw(st.booleans())
    boolmode = draw(st.sampled_from(["mixed", "mixed", "nan"])) if mip else draw(st.sampled_from(["absent", "absent", "allfalse"]))
    isb = [mip and draw(st.integers(0, 2)) == 0 for _ in range(n)]
    if mip and not any(isb):
        isb[draw(st.integers(0, n - 1))] = True
    l, u, x0 = [], [], []
    for j in range(n):
        if isb[j]:
            lo, hi = draw(st.sampled_from([(0, 1), (0, 1), (0, 1), (0, 0), (1, 1), (-0.5, 1.5), (0, 0.75), (0.25, 1),
                                           (-1, 2), (1.25, 1.5), (-1, -0.5)]))
            ok = [v for v in (0, 1) if lo <= v <= hi]
            x = draw(st.sampled_from(ok)) if ok else 0
        else:
            lo = draw(gen.dyadic(-4, 2))
            hi = lo + draw(gen.dyadic(0, 6))
            x = lo + (hi - lo) * draw(st.sampled_from([0.0, 0.25, 0.5, 1.0]))
        l.append(float(lo))
        u.append(float(hi))
        x0.append(float(x))
    m = draw(st.integers(0, 14))
    rows = []
    for _ in range(m):
        k = draw(st.integers(1, min(n, 4)))
        cols = draw(st.lists(st.integers(0, n - 1), min_size=k, max_size=k, unique=True))
        coef = [draw(st.sampled_from([-3, -2, -1, 1, 2, 3, 0.5])) for _ in cols]
        t = draw(st.sampled_from("ULSN"))
        slack = draw(st.sampled_from([0.0, 0.0, 0.5, 2.0])) if t in "UL" else 0.0
        rows.append({"cols": cols, "coef": coef, "type": t, "slack": slack})
    contra = None
    if draw(st.integers(0, 4)) == 0:
        k = draw(st.integers(1, min(n, 3)))
        cols = draw(st.lists(st.integers(0, n - 1), min_size=k, max_size=k, unique=True))
        contra = {"cols": cols, "coef": [draw(st.sampled_from([-2, -1, 1, 2])) for _ in cols],
                  "kind": draw(st.sampled_from(["UL", "SN", "bound"]))}
    c = [draw(gen.dyadic(-4, 4)) for _ in range(n)]
    dup = draw(st.lists(st.integers(0, n - 1), max_size=4))
    edit = None
    if m and draw(st.integers(0, 4)) == 0:
        # the same problem object is optimised, edited in place and optimised again
        edit = {"row": draw(st.integers(0, m - 1)), "what": draw(st.sampled_from(["type", "coef", "rhs"]))}
    return {"kind": "raw", "n": n, "c": c, "l": l, "u": u, "x0": x0, "isbool": isb, "rows": rows, "contra": contra, "edit": edit,
            "boolmode": boolmode, "dup": dup, "solver": draw(st.sampled_from(SOLVERS_MIP if mip else SOLVERS_LP)),
            "soft": mip and draw(st.integers(0, 5)) == 0}


@st.composite
def _pf(draw):
    spec = draw(gen.portfolios_all(max_T=10, max_assets=4))
    spec["kind"] = "portfolio"
    spec["split"] = draw(st.one_of(st.none(), st.none(), st.sampled_from(["6h", "12h", "d"])))
    spec["solver"] = draw(st.sampled_from([None, "SCIPY", "SCIP", "CLARABEL"]))
    spec["soft"] = draw(st.integers(0, 7)) == 0
    return spec


@st.composite
def _profiles(draw):
    """fixed profiles (min_cap = max_cap per step) for supply and demand at one node, a flexible market only in part of
    the horizon: intervals of the split build in which every variable is fixed, consistently (balanced) or not"""
    g = draw(gen.grids(min_T=4, max_T=12))
    T = g["T"]
    dt = tl.dt(g)
    cx = gen.Cx(g, ["n0"], {"p0": draw(gen.price_series(T))})
    dem = [draw(st.sampled_from([0.5, 1.0, 2.0])) for _ in range(T)]
    sup = list(dem)
    if draw(st.booleans()):
        t_bad = draw(st.integers(0, T - 1))
        sup[t_bad] += draw(st.sampled_from([0.5, -0.25]))
    cd = cx.new_col([-q / dt[t] for t, q in enumerate(dem)])
    cs = cx.new_col([q / dt[t] for t, q in enumerate(sup)])
    s0 = draw(st.integers(0, T - 1))
    e0 = draw(st.integers(s0 + 1, T))
    cap = 8.0 / float(dt.min())
    assets = [{"type": "simple", "name": "demand", "nodes": ["n0"], "price": None, "min_cap": {"col": cd}, "max_cap": {"col": cd},
               "extra_costs": 0.0, "wacc": 0.0, "start": None, "end": None},
              {"type": "simple", "name": "supply", "nodes": ["n0"], "price": "p0", "min_cap": {"col": cs}, "max_cap": {"col": cs},
               "extra_costs": 0.0, "wacc": 0.0, "start": None, "end": None},
              {"type": "simple", "name": "market", "nodes": ["n0"], "price": "p0", "min_cap": -cap, "max_cap": cap,
               "extra_costs": 0.25, "wacc": 0.0, "start": s0, "end": e0}]
    return {"kind": "portfolio", "grid": g, "prices": cx.prices, "assets": assets, "profiles": True,
            "split": draw(st.sampled_from([None, "6h", "12h", "d", "d"])),
            "solver": draw(st.sampled_from([None, "SCIPY", "CLARABEL"])), "soft": False}


@st.composite
def _book_gap(draw):
    """an order book with enforced full execution whose first order(s) lie outside the horizon: their variables have
    no mapping rows, the labels of the flagged variables behind them do not start at the book's first variable"""
    g = draw(gen.grids(min_T=3, max_T=10))
    T = g["T"]
    cx = gen.Cx(g, ["n0"], {"p0": draw(gen.price_series(T))})
    book = gen.a_orderbook(draw, cx, "book", n_max=5)
    book["full_exec"] = True
    k = draw(st.integers(1, 2))
    for o in book["orders"][:k]:
        o[0], o[1] = (-4, -1) if draw(st.booleans()) else (T + 1, T + 3)
    for o in book["orders"][k:]:
        s_ = draw(st.integers(0, T - 1))
        o[0], o[1] = s_, draw(st.integers(s_ + 1, T))
    if len(book["orders"]) <= k:
        s_ = draw(st.integers(0, T - 1))
        book["orders"].append([s_, T, 1.0 / cx.dt0, 2.0])
    assets = [book] if draw(st.booleans()) else []
    assets += gen.markets(cx, cap_q=4.0, draw=draw)
    if not any(a["type"] == "orderbook" for a in assets):
        assets.insert(draw(st.integers(0, len(assets))), book)
    if draw(st.booleans()):
        assets.append(gen.a_storage(draw, cx, "s0"))
        assets[-1]["price"] = None
    return {"kind": "portfolio", "grid": g, "prices": cx.prices, "assets": assets, "split": None,
            "solver": draw(st.sampled_from([None, "SCIP", "SCIPY"])), "soft": False, "book_gap": True}


def strategy(tier):
    return st.one_of(_raw(), _raw(), _raw(), _pf(), _pf(), _profiles(), _book_gap())


def build_raw(spec):
    n = spec["n"]
    rows = list(spec["rows"])
    x0 = np.array(spec["x0"])
    A = sp.lil_matrix((0, n))
    Al, b, cT = [], [], ""
    for r in rows:
        a = np.zeros(n)
        for j, v in zip(r["cols"], r["coef"]):
            a[j] = v
        v0 = float(a @ x0)
        Al.append(a)
        cT += r["type"]
        b.append(v0 + r["slack"] if r["type"] == "U" else (v0 - r["slack"] if r["type"] == "L" else v0))
    l = np.array(spec["l"], float)
    u = np.array(spec["u"], float)
    if spec["contra"]:
        cc = spec["contra"]
        a = np.zeros(n)
        for j, v in zip(cc["cols"], cc["coef"]):
            a[j] = v
        hi = float(np.where(a > 0, a * u, a * l).sum())    # max of a.x over the box
        if cc["kind"] == "UL":
            v0 = float(a @ x0)
            Al += [a, a]
            cT += "UL"
            b += [v0, v0 + 1.0]
        elif cc["kind"] == "SN":
            v0 = float(a @ x0)
            Al += [a, a]
            cT += "SN"
            b += [v0, v0 + 1.0]
        else:   # row that the bounds cannot meet
            Al += [a]
            cT += "L"
            b += [hi + 1.0]
    A = sp.csr_matrix(np.array(Al)) if Al else None
    idx = list(range(n)) + list(spec["dup"])
    mp = pd.DataFrame({"asset": "r", "node": "n", "type": "d", "time_step": 0, "var_name": "v"}, index=idx)
    isb = np.array(spec["isbool"])
    if spec["boolmode"] == "allfalse":
        mp["bool"] = False
    elif spec["boolmode"] == "mixed":
        mp["bool"] = [bool(isb[i]) for i in idx]
    elif spec["boolmode"] == "nan":
        mp["bool"] = [True if isb[i] else np.nan for i in idx]
    bools = [int(j) for j in range(n) if isb[j]] if spec["boolmode"] in ("mixed", "nan") else []
    op = eao_call(OptimProblem, c=np.array(spec["c"], float), l=l, u=u, A=A, b=np.array(b, float) if Al else None,
                  cType=cT if Al else None, mapping=mp)
    return op, bools


def backend_disagrees(op, res, v_ref, solver, soft, mip):
    """True if another solver behind the same EAO translation reproduces the reference optimum.

    Then the deviation is the solver backend's (cvxpy interface / solver bug), not EAO's: the
    property speaks about EAO 'within solver tolerance'.  Observed on the unchanged tree: cvxpy's
    SCIPY(HiGHS) MIP interface reports 'infeasible' for some feasible problems that SCIP and
    scipy.milp on the same arrays solve.
    """
    for alt in (["SCIP", "SCIPY"] if mip else ["SCIPY", "CLARABEL", "SCIP"]):
        if alt == solver:
            continue
        kw = {"solver": alt}
        if soft:
            kw["make_soft_problem"] = True
        r2 = eao_call(op.optimize, **kw)
        if not is_err(r2) and not isinstance(r2, str):
            if abs(float(r2.value) - v_ref) <= core.tol_val(v_ref, mip):
                return True
    return False


def judge(out, op, res, bools, what, mip, soft=False, solver=None):
    """oracle for one (problem, outcome) pair; returns the reference status"""
    raw = lpkit.from_op(op, bools=bools)
    if soft:
        raw.bools = []
    st_ref, x_ref, v_ref = lpkit.solve(raw)
    if st_ref == "optimal" and isinstance(res, str) and res != "inaccurate":
        if backend_disagrees(op, res, v_ref, solver, soft, mip):
            out.label("backend_disagreement:" + str(solver))
            return st_ref
    if is_err(res):
        if st_ref == "infeasible":
            out.fail("%s: optimize raised %s on an infeasible problem instead of reporting failure" % (what, res.short()))
        else:
            out.fail("%s: optimize raised %s" % (what, res.short()))
        return st_ref
    if isinstance(res, str):
        out.label("status:" + res.replace(" ", "_"))
        if res == "inaccurate":
            return st_ref
        if st_ref == "optimal":
            out.fail("%s: reported '%s' but the problem is feasible (reference optimum %.9g)" % (what, res, v_ref))
        return st_ref
    out.label("status:optimal")
    x = np.asarray(res.x, float)
    scale = raw.scale()
    worst, where = lpkit.residual(raw, x)
    tf = core.tol_feas(scale) * (10 if mip else 1)
    if worst > tf:
        out.fail("%s: returned x violates %s by %g (tolerance %g)" % (what, where, worst, tf))
    val = float(-raw.c @ x)
    tv = core.tol_val(val, mip) + 1e-7 * float(np.abs(raw.c * x).sum())
    if abs(val - float(res.value)) > tv:
        out.fail("%s: reported value %.9g != -c.x = %.9g" % (what, float(res.value), val))
    if st_ref == "infeasible":
        if worst > tf:
            out.fail("%s: a solution was returned but the reference proves infeasibility" % what)
        else:   # x is a witness of feasibility: the reference solver is wrong, not EAO
            out.label("reference_wrongly_infeasible")
    elif st_ref == "optimal":
        if raw.bools and abs(float(res.value) - v_ref) > tv:
            v_ref, lab = lpkit.second_opinion(raw, x_ref, v_ref, x, float(res.value), tv, tf)
            out.label(lab)
        if v_ref is not None and abs(float(res.value) - v_ref) > tv:
            # a feasible but sub-optimal point with status 'optimal': EAO's translation or the solver behind it?  If
            # another backend behind the same translation attains the reference optimum it is the backend
            # (seen: cvxpy's SCIPY/HiGHS MIP interface returns 1.25 where SCIP and the enumeration give 4.0625)
            if mip and worst <= tf and float(res.value) < v_ref and backend_disagrees(op, res, v_ref, solver, soft, mip):
                out.label("backend_disagreement:%s:suboptimal" % solver)
            else:
                out.fail("%s: reported value %.9g, reference optimum %.9g" % (what, float(res.value), v_ref))
    return st_ref


def check(spec):
    out = Outcome()
    solver = spec.get("solver")
    out.label("kind:" + spec["kind"], "solver:" + str(solver))
    if spec["kind"] == "raw":
        op, bools = build_raw(spec)
        if is_err(op):
            return out.fail("OptimProblem raised " + op.short())
        mip = len(bools) > 0
        if solver == "CLARABEL" and mip:
            solver = None
        kw = {}
        if solver is not None:
            kw["solver"] = solver
        if spec.get("soft"):
            kw["make_soft_problem"] = True
        res = eao_call(op.optimize, **kw)
        stref = judge(out, op, res, bools, "raw problem", mip and not spec.get("soft"), soft=spec.get("soft", False),
                      solver=solver)
        out.label("mip" if mip else "lp", "boolmode:" + spec["boolmode"], "dup_rows" if spec["dup"] else None,
                  "soft" if spec.get("soft") else None, "ref:" + str(stref))
        if spec.get("soft") and mip and not out.violations:
            # history on the problem object: after the relaxed run the same object is optimised as it stands; the flags
            # are those of the problem as built (remembered above), whatever the relaxed run left in the object
            kw2 = {k_: v_ for k_, v_ in kw.items() if k_ != "make_soft_problem"}
            res3 = eao_call(op.optimize, **kw2)
            judge(out, op, res3, bools, "raw problem optimised again after a relaxed (make_soft_problem) run of the same object",
                  True, soft=False, solver=solver)
            out.label("plain_after_soft")
        if spec.get("edit") and op.A is not None and not out.violations:
            # history on the problem object: edit one row in place and optimise the same object again
            e = spec["edit"]
            i = e["row"] % len(op.cType)
            if e["what"] == "type":
                flip = {"U": "L", "L": "U", "S": "U", "N": "L"}[op.cType[i]]
                op.cType = op.cType[:i] + flip + op.cType[i + 1:]
            elif e["what"] == "coef":
                op.A = op.A.tolil()
                nz = op.A.rows[i]
                if nz:
                    op.A[i, nz[0]] = op.A[i, nz[0]] * -2.0
            else:
                op.b = np.asarray(op.b, float)
                op.b[i] = op.b[i] + (1.0 if op.cType[i] == "U" else -1.0)
            res2 = eao_call(op.optimize, **kw)
            judge(out, op, res2, bools, "raw problem edited in place (%s of row %d) and optimised again" % (e["what"], i),
                  mip and not spec.get("soft"), soft=spec.get("soft", False), solver=solver)
            out.label("edited_and_reoptimised")
        nt = False
        if stref == "infeasible":
            nt = True
        elif stref == "optimal" and not is_err(res) and not isinstance(res, str):
            raw = lpkit.from_op(op, bools=bools)
            tight = lpkit.tight_classes(raw, np.asarray(res.x, float))
            out.label("tight_classes:%d" % len(tight))
            if len(set(raw.cType)) >= 3 and len(tight) >= 2:
                nt = True
            if mip:
                rel = raw.copy()
                rel.bools = []
                s2, _, v2 = lpkit.solve(rel)
                if s2 == "optimal" and v2 > float(res.value) + 1e-6:
                    nt = True
                    out.label("fractional_relaxation")
        out.nontrivial = nt
        return out
    # ------------------------------------------------------------------ assembled problems
    split = spec.get("split")
    r = obs.Run(spec, split=split)
    if is_err(r.op):
        return out.drop("setup_error:" + r.op.kind)
    ops = r.op.ops if split else [r.op]
    mip = r.is_mip
    out.label("mip" if mip else "lp", "build:split" if split else "build:monolithic", "fixed_profiles" if spec.get("profiles") else None)
    if split and any(len(o.c) and np.all(np.asarray(o.l) == np.asarray(o.u)) for o in ops):
        out.label("interval_fully_fixed")
    if solver == "CLARABEL" and mip:
        solver = None
    if solver is None and mip:
        solver = "SCIP"
    kw = {}
    if solver is not None:
        kw["solver"] = solver
    soft = bool(spec.get("soft")) and mip
    if soft:
        kw["make_soft_problem"] = True
    if any(len(o.c) == 0 for o in ops):
        return out.drop("empty_problem")
    bools0 = None if split else lpkit.bools_of_mapping(r.op.mapping)     # the flags of the problem as assembled
    res = eao_call(r.op.optimize, **kw)
    if split:
        # reference per interval
        refs = []
        for o in ops:
            raw = lpkit.from_op(o)
            if soft:
                raw.bools = []
            refs.append(lpkit.solve(raw))
        if isinstance(res, str) and res != "inaccurate" and any(s[0] == "infeasible" for s in refs):
            out.label("split_interval_infeasible_reported")
            out.nontrivial = True
            return out
        if is_err(res) or (isinstance(res, str) and res != "inaccurate"):
            if is_err(res) and any(s[0] == "infeasible" for s in refs):
                return out.fail("split optimize raised %s for an infeasible interval instead of reporting failure" % res.short())
            # every interval is feasible: does another backend behind the same translation solve it?
            for alt in (["SCIP", "SCIPY"] if mip else ["SCIPY", "CLARABEL", "SCIP"]):
                if alt == solver:
                    continue
                k2 = dict(kw, solver=alt)
                r2 = eao_call(r.op.optimize, **k2)
                if not is_err(r2) and not isinstance(r2, str):
                    return out.drop("backend_disagreement:" + str(solver))
            if is_err(res):
                return out.fail("split optimize raised " + res.short())
            return out.fail("split optimize reports '%s' although every interval is feasible" % res)
        if isinstance(res, str):
            return out.drop("split_inaccurate")
        x = np.asarray(res.x, float)
        pos = 0
        tot = 0.0
        if mip and all(s_[0] == "optimal" for s_ in refs):
            # sub-optimal MIP value: the backend's or EAO's?  (see judge) - another backend behind the same split problem
            tot_ref = sum(s_[2] for s_ in refs)
            if float(res.value) < tot_ref - core.tol_val(tot_ref, True) * len(ops):
                for alt in ["SCIP", "SCIPY"]:
                    if alt == solver:
                        continue
                    r2 = eao_call(r.op.optimize, **dict(kw, solver=alt))
                    if not is_err(r2) and not isinstance(r2, str) and abs(float(r2.value) - tot_ref) <= core.tol_val(tot_ref, True) * len(ops):
                        return out.drop("backend_disagreement:%s:suboptimal" % solver)
        for k, (o, (s, xr, vr)) in enumerate(zip(ops, refs)):
            raw = lpkit.from_op(o)
            if soft:
                raw.bools = []
            xs = x[pos:pos + raw.n]
            pos += raw.n
            worst, where = lpkit.residual(raw, xs)
            tf = core.tol_feas(raw.scale()) * (10 if mip else 1)
            if worst > tf:
                out.fail("interval %d: slice of x violates %s by %g" % (k, where, worst))
            if s == "optimal":
                v = float(-raw.c @ xs)
                if abs(v - vr) > core.tol_val(vr, mip) + 1e-7 * float(np.abs(raw.c * xs).sum()):
                    out.fail("interval %d: value of slice %.9g, reference optimum %.9g" % (k, v, vr))
                tot += vr
        if pos != len(x):
            out.fail("split x has %d entries, interval problems have %d variables" % (len(x), pos))
        if all(s[0] == "optimal" for s in refs) and abs(float(res.value) - tot) > core.tol_val(tot, mip) * len(ops):
            out.fail("split value %.9g is not the sum of the interval optima %.9g" % (float(res.value), tot))
        out.nontrivial = len(ops) >= 2 and not out.violations
        return out
    stref = judge(out, r.op, res, bools0, "assembled problem", mip and not soft, soft=soft,
                  solver=solver)
    if soft and not out.violations:
        res3 = eao_call(r.op.optimize, **{k_: v_ for k_, v_ in kw.items() if k_ != "make_soft_problem"})
        judge(out, r.op, res3, bools0, "assembled problem optimised again after a relaxed (make_soft_problem) run of the same object",
              True, soft=False, solver=solver)
        out.label("plain_after_soft")
    if stref == "optimal" and not is_err(res) and not isinstance(res, str):
        raw = lpkit.from_op(r.op)
        tight = lpkit.tight_classes(raw, np.asarray(res.x, float))
        out.nontrivial = len(tight) >= 2
        if soft:
            s2, _, v2 = lpkit.solve(raw)
            if s2 == "optimal" and float(res.value) < v2 - core.tol_val(v2, True):
                out.fail("relaxed (soft) value %.9g is below the MIP optimum %.9g" % (float(res.value), v2))
    elif stref == "infeasible":
        out.nontrivial = True
    return out
