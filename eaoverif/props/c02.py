"""C02  Assembled LP means what the asset documentation says (reference equivalence)."""
import numpy as np
from hypothesis import strategies as st

from .. import core, gen, build, obs, lpkit, refmodel
from .. import timeline as tl
from ..core import Outcome, is_err

ID = "C02"
LEVEL = "exploration"
EXAMPLES = {"quick": 1400, "thorough": 30000}
RULE = ("Generated: portfolios of 1-5 assets over 1-3 nodes from SimpleContract/Contract (scalar, interval-dict and "
        "price-column capacities; buy/sell spread; min/max take inside, straddling, outside the horizon), Transport/"
        "ExtendedTransport (efficiency, constant + time-series costs, takes), Storage (size, rates, charging "
        "efficiency, start/end level, inflow, in/out/holding costs, one or two nodes, window), MultiCommodityContract; "
        "per-asset wacc in {0,.05,.4}; asset windows inside/straddling; grids 2-12 steps x freq x unit x zone (DST). "
        "A buy/sell market pair per node in 85%. Oracle: independent textbook LP written from the spec, solved by "
        "scipy-HiGHS: both infeasible, or |V_eao - V_ref| <= tol; EAO's x mapped to reference variables satisfies "
        "every reference bound and row and attains V. Non-trivial: optimum != 0, >= 2 asset classes with non-zero "
        "dispatch and one of {efficiency != 1, inflow, take row present, spread, wacc != 0, partial window}. "
        "Distinct = distinct spec hash.")
RULE += (' Shapes (round 5): the lean storage formulation (one variable per step) with holding cost and discounting; capacities as numpy arrays, one rate per step; purchase contracts with a spread whose capacity is zero in some steps.')
ASSUMPTIONS = ["reference formulation as stated in refmodel.py's docstring (level and holding cost at the end of the step)",
               "take periods lie on step boundaries; assets with takes have no own window (prorating by the part inside "
               "the horizon is then unambiguous)",
               "storage 'price' parameter (undocumented) not generated", "HiGHS linprog is the reference solver"]

CLASSES = ["simple", "simple", "contract", "contract", "transport", "storage", "storage", "storage", "multi"]


@st.composite
def _strategy(draw):
    spec = draw(gen.portfolios(classes=CLASSES, max_assets=5, with_markets=0.85))
    for a in spec["assets"]:
        if a.get("min_take") or a.get("max_take"):
            a["start"] = None
            a["end"] = None
        if a["type"] == "storage":
            a["price"] = None
            if draw(st.integers(0, 5)) == 0:
                # the lean formulation (one variable per step: no loss, no in / out costs, one node) with holding cost
                # and discounting
                a.update(eff_in=1.0, cost_in=0.0, cost_out=0.0, nodes=a["nodes"][:1],
                         cost_store=draw(st.sampled_from([0.0625, 0.25, 1.0])) / float(tl.dt(spec["grid"])[0]),
                         wacc=draw(st.sampled_from([0.05, 0.4])))
                if a["inflow"]:
                    a["inflow"] = 0.0
        if a["type"] in ("simple", "contract") and draw(st.integers(0, 9)) == 0:
            # a purchase contract with a spread whose capacity is out (zero) in some steps - one variable per step
            T = spec["grid"]["T"]
            mx = a["max_cap"] if isinstance(a["max_cap"], (int, float)) and a["max_cap"] > 0 else 2.0 / float(tl.dt(spec["grid"])[0])
            fs = draw(st.lists(st.sampled_from([1.0, 0.5, 0.0, 0.0]), min_size=T, max_size=T))
            cxn = "cap_out_%s" % a["name"]
            spec["prices"][cxn] = [mx * f for f in fs]
            a.update(min_cap=0.0, max_cap={"col": cxn}, extra_costs=draw(st.sampled_from([0.25, 1.0, 2.0])))
            a["min_take"] = a["max_take"] = None
        elif a["type"] in ("simple", "contract") and a.get("start") is None and a.get("end") is None and draw(st.integers(0, 7)) == 0:
            # capacities as numpy arrays, one rate per step of the asset (accepted next to numbers)
            T = spec["grid"]["T"]
            for k in ("min_cap", "max_cap"):
                if isinstance(a.get(k), (int, float)) and a[k] != 0:
                    fs = draw(st.lists(st.sampled_from([1.0, 0.5, 0.25, 0.75]), min_size=T, max_size=T))
                    a[k] = {"vec": [a[k] * f for f in fs]}
            if isinstance(a["min_cap"], dict) or isinstance(a["max_cap"], dict):
                a["min_take"] = a["max_take"] = None
    return spec


def strategy(tier):
    return _strategy()


def features(spec):
    f = set()
    T = spec["grid"]["T"]
    for a in spec["assets"]:
        if a.get("efficiency", 1.0) != 1.0 or a.get("eff_in", 1.0) != 1.0:
            f.add("efficiency")
        if a.get("inflow", 0.0):
            f.add("inflow")
        if a.get("min_take") or a.get("max_take"):
            f.add("take")
        if a.get("extra_costs") not in (0, 0.0, None) or a.get("costs_const"):
            f.add("spread/cost")
        if a.get("wacc", 0.0):
            f.add("wacc")
        s, e = a.get("start"), a.get("end")
        if (s is not None and s > 0) or (e is not None and e < T):
            f.add("partial_window")
        if a.get("cost_store"):
            f.add("holding_cost")
        if isinstance(a.get("min_cap"), dict) or isinstance(a.get("max_cap"), dict):
            f.add("cap_series")
        if len(a["nodes"]) == 2 and a["type"] == "storage":
            f.add("two_node_storage")
    return f


def compare(out, spec, r, res):
    """reference comparison shared with C20; returns (ref, status, V_ref)"""
    ref = refmodel.Ref(spec)
    if ref.unsupported:
        raise core.HarnessError("generator produced a spec the reference does not cover: " + ref.unsupported)
    raw = ref.raw()
    st_ref, x_ref, v_ref = lpkit.solve(raw)
    out.label("ref:" + st_ref)
    mip = bool(raw.bools)
    if isinstance(res, str):
        if res == "inaccurate":
            out.drop("inaccurate")
        elif st_ref == "optimal":
            out.fail("EAO reports '%s' but the reference model is feasible with optimum %.9g" % (res, v_ref))
        return ref, st_ref, v_ref
    V = float(res.value)
    if st_ref == "infeasible":
        out.fail("EAO returns value %.9g but the reference model is infeasible" % V)
        return ref, st_ref, v_ref
    if st_ref != "optimal":
        out.drop("reference_" + st_ref)
        return ref, st_ref, v_ref
    tol = core.tol_val(v_ref, mip) + 1e-7 * float(np.abs(np.asarray(r.op.c) * np.asarray(res.x)).sum())
    if mip and abs(V - v_ref) > tol:
        vec0, missing0 = ref.vector_from_eao(r.op, np.asarray(res.x, float))
        if not missing0:
            v2, lab = lpkit.second_opinion(raw, x_ref, v_ref, vec0, V, tol, core.tol_feas(raw.scale()) * 10)
            out.label(lab)
            if v2 is None:
                out.drop("milp_reference_unreliable")
                return ref, "other", v_ref
            v_ref = v2
    if abs(V - v_ref) > tol:
        out.fail("optimal value %.9g differs from the reference formulation's %.9g (tolerance %.3g)" % (V, v_ref, tol))
    vec, missing = ref.vector_from_eao(r.op, np.asarray(res.x, float))
    if missing:
        out.fail("EAO has no variable for reference variables %s" % missing[:4])
        return ref, st_ref, v_ref
    worst, where = lpkit.residual(raw, vec, tol_int=True)
    tf = core.tol_feas(raw.scale()) * (10 if mip else 1)
    if worst > tf:
        k = None
        out.fail("EAO's optimal dispatch is infeasible for the reference model: %s violated by %g" % (where, worst))
    elif abs(float(-raw.c @ vec) - V) > tol:
        out.fail("EAO's dispatch is worth %.9g in the reference model but EAO reports %.9g" % (float(-raw.c @ vec), V))
    return ref, st_ref, v_ref


def check(spec):
    out = Outcome()
    cls = obs.classes_of(spec)
    out.label(*["class:" + c for c in set(cls)])
    r = obs.Run(spec)
    if is_err(r.op):
        return out.drop("setup_error:" + r.op.kind)
    res = r.optimize()
    if is_err(res):
        return out.drop("optimize_error:" + res.kind)
    out.label(obs.status_label(res))
    ref, st_ref, v_ref = compare(out, spec, r, res)
    f = features(spec)
    out.label(*["feature:" + x for x in f])
    if st_ref == "optimal" and not isinstance(res, str) and not out.discard:
        o = r.output()
        active_cls = set()
        if not is_err(o):
            disp = o["dispatch"]
            for a in spec["assets"]:
                if a["name"].startswith(("mb", "ms")):
                    continue
                for (an, n) in build.asset_node_pairs(a):
                    col = build.disp_col(spec, an, n)
                    if col in disp.columns and np.abs(disp[col].values.astype(float)).max(initial=0) > 1e-5:
                        active_cls.add(a["type"])
        out.nontrivial = abs(v_ref) > 1e-6 and len(active_cls) >= 2 and bool(f - {"cap_series"})
    elif st_ref == "infeasible" and isinstance(res, str):
        out.label("both_infeasible")
    return out
