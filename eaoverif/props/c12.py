"""C12  Time bookkeeping: main time unit is irrelevant; limits follow step length."""
import copy

import numpy as np
import scipy.sparse as sp
from hypothesis import strategies as st

from .. import core, gen, build, obs, lpkit
from .. import timeline as tl
from ..core import Outcome, is_err, eao_call

ID = "C12"
LEVEL = "exploration"
EXAMPLES = {"quick": 1200, "thorough": 24000}
RULE = ("Generated: (units) a portfolio spec over all asset classes (contracts, takes, transports, storages incl. MIP "
        "options, multi-commodity, order books, Plant/CHP with ramp/runtime/downtime/profiles, scaled with fixed "
        "cost, structured) and a target main time unit from {h,d,min} different from the source; every rate "
        "(capacities, inflow, holding cost, fixed cost of scaled assets, ramps, last dispatch, running cost and "
        "consumption, start/shutdown profiles, order capacities) is multiplied by k = target/source unit and every "
        "duration (minimum runtime/downtime, already running/off, maximum holding time) divided by k; volumes, "
        "prices and per-volume costs stay. Oracle (a) the assembled c,l,u,A,b,cType are equal (rtol 1e-9, no solver); "
        "(a') in 1 of 2 cases the same interval by interval through setup_split_optim_problem (12h, d, 2d); (b) on every 4th case the optimal values are equal; (steps) grids with unequal steps (daily steps across a "
        "DST switch, calendar months): Timegrid.dt = real elapsed time and the per-step bounds of contract, transport "
        "and storage equal rate x dt_t, so that totals equal rate x elapsed time; running costs of a plant per step = rate x dt_t. Non-trivial: (units) the "
        "portfolio contains >= 1 rate and (>= 1 duration parameter or wacc != 0 or a take); (steps) the grid has >= "
        "2 distinct step lengths. Distinct = distinct spec hash.")
RULE += (' Steps clause: holding cost of a storage per unit and step = cost rate x elapsed time to the end of the window; a plant with ramp running at its full rate keeps admissible volumes capacity x step length (known finding D58, class excluded from generation).')
ASSUMPTIONS = ["profiles are given with ramp_freq = grid frequency (otherwise their number of steps depends on the unit by definition)",
               "durations at half-step offsets (ceil conversion unambiguous in every unit)"]

CLASSES = ["simple", "contract", "transport", "storage", "storage", "storage_mip", "multi", "orderbook", "plant", "plant",
           "chp", "scaled", "structured"]
RATE_KEYS = ["min_cap", "max_cap", "cap_in", "cap_out", "inflow", "cost_store", "fix_costs", "ramp", "last_dispatch",
             "running_costs", "consumption_if_on", "start_ramp_lower_bounds", "start_ramp_upper_bounds",
             "shutdown_ramp_lower_bounds", "shutdown_ramp_upper_bounds"]
DUR_KEYS = ["min_runtime", "min_downtime", "time_already_running", "time_already_off", "max_store_duration"]


@st.composite
def _units(draw):
    spec = draw(gen.portfolios_all(classes=CLASSES, max_assets=4, max_T=10, with_markets=0.9))
    u1 = spec["grid"]["mtu"]
    spec["target"] = draw(st.sampled_from([u for u in ("h", "d", "min") if u != u1]))
    spec["kind"] = "units"
    spec["split"] = draw(st.sampled_from([None, None, None, "12h", "d", "2d"]))
    # give plants ramps / downtime so that durations and rates are both present
    cxd = float(tl.dt(spec["grid"])[0])
    for a in spec["assets"]:
        if a["type"] in ("plant", "chp"):
            if draw(st.booleans()):
                a["ramp"] = draw(st.sampled_from([1.0, 2.0, 8.0])) / cxd
            if draw(st.booleans()) and not a.get("time_already_running"):
                a["min_downtime"] = 1.5 * cxd
                a["time_already_off"] = 0.5 * cxd
    return spec


@st.composite
def _steps(draw):
    kind = draw(st.sampled_from(["dst_day", "dst_day", "month"]))
    if kind == "month":
        g = {"start": draw(st.sampled_from(["2021-01-01 00:00", "2020-02-01 00:00", "2021-10-01 00:00"])),
             "T": draw(st.integers(2, 5)), "freq": "MS", "mtu": draw(st.sampled_from(["h", "d"])),
             "tz": draw(st.sampled_from([None, "CET"]))}
    else:
        date, tz = draw(st.sampled_from([("2021-03-27", "CET"), ("2021-10-30", "CET"), ("2021-03-13", "America/New_York"),
                                         ("2021-11-06", "America/New_York"), ("2021-03-27", "Europe/London")]))
        g = {"start": date + " 00:00", "T": draw(st.integers(2, 5)), "freq": "d", "mtu": draw(st.sampled_from(["h", "d", "min"])),
             "tz": tz}
    cls = draw(st.sampled_from(["simple", "transport", "storage", "coarse", "coarse", "plant_running", "plant_ramp"]))
    excluded = 0
    if cls == "plant_ramp":
        # known finding D58 (open): Plant / CHP take the length of the first step for every step (ramp limits, last
        # dispatch); on steps of unequal length a constant rate is then excluded. Not generated; the listed replay
        # keeps it visible.
        excluded = 1
        cls = "plant_running"
    cx = gen.Cx(g, ["n0", "n1"], {"p0": [1.0] * g["T"]})
    if cls == "coarse":
        if kind == "month":
            g["freq"], g["start"], g["T"] = "d", "2021-03-27 00:00", draw(st.integers(4, 6))
            g["tz"] = "CET"
        g["T"] = max(g["T"], 4)
        cx = gen.Cx(g, ["n0", "n1"], {"p0": [1.0] * g["T"]})
        a = gen.a_simple(draw, cx, "a0", allow_forms=False, sides="buy")
        a["extra_costs"] = 0.0
        a["wacc"] = 0.0
        a["freq"] = "2d"
    elif cls == "plant_running":
        # per-time costs: a plant with on-variables and running costs per main time unit
        a = {"type": "plant", "name": "a0", "nodes": ["n0"], "price": None, "min_cap": 1.0, "max_cap": 2.0, "extra_costs": 0.0,
             "wacc": 0.0, "running_costs": draw(st.sampled_from([0.5, 2.0, 3.0])), "start_costs": 0.0}
    else:
        a = gen.draw_asset(draw, cx, cls, "a0")
    a["start"] = a["end"] = None
    for k in ("min_cap", "max_cap"):
        if isinstance(a.get(k), dict):
            a[k] = 1.0 if k == "max_cap" else 0.0
    if a["type"] == "storage" and draw(st.booleans()):
        # per-time cost: holding cost per volume and main time unit, nothing else in the cost vector
        a.update(cost_store=draw(st.sampled_from([0.125, 0.5, 2.0])), cost_in=0.0, cost_out=0.0, price=None, wacc=0.0,
                 inflow=draw(st.sampled_from([0.0, a.get("inflow", 0.0)])))
        a["_holding"] = True
    return {"kind": "steps", "grid": g, "prices": cx.prices, "assets": [a], "excluded_known": excluded}


def strategy(tier):
    return st.one_of(_units(), _units(), _units(), _steps())


def scale_val(v, k, prices, done):
    if v is None:
        return v
    if isinstance(v, (int, float)):
        return v * k
    if isinstance(v, list):
        return [x * k for x in v]
    if "iv" in v:
        v = copy.deepcopy(v)
        for r in v["iv"]:
            r[2] = r[2] * k
        return v
    if "col" in v:
        if v["col"] not in done:
            prices[v["col"]] = [x * k for x in prices[v["col"]]]
            done.add(v["col"])
        return v
    return v


def convert(spec, target):
    """the same portfolio expressed in another main time unit"""
    s2 = copy.deepcopy(spec)
    u1 = spec["grid"]["mtu"]
    k = tl.UNIT_SECONDS[target] / tl.UNIT_SECONDS[u1]     # 1 target unit = k source units
    s2["grid"]["mtu"] = target
    done = set()
    feats = {"rate": 0, "dur": 0}

    def fix(a):
        for key in RATE_KEYS:
            if key in a and a[key] is not None:
                a[key] = scale_val(a[key], k, s2["prices"], done)
                if a[key]:
                    feats["rate"] += 1
        for key in DUR_KEYS:
            if key in a and a[key] is not None:
                if a[key]:
                    feats["dur"] += 1
                a[key] = a[key] / k
        if a["type"] == "orderbook":
            for o in a["orders"]:
                o[2] = o[2] * k
            feats["rate"] += 1
        for x in a.get("assets", []):
            fix(x)
        if "base" in a:
            fix(a["base"])
    for a in s2["assets"]:
        fix(a)
    return s2, feats


def same_problem(out, A, B, what):
    if len(A.c) != len(B.c):
        out.fail("%s: %d vs %d variables" % (what, len(A.c), len(B.c)))
        return
    for nm in ("c", "l", "u"):
        a, b = np.asarray(getattr(A, nm), float), np.asarray(getattr(B, nm), float)
        if not np.allclose(a, b, rtol=1e-9, atol=1e-11):
            j = int(np.argmax(np.abs(a - b)))
            out.fail("%s: %s differs at variable %d: %.12g vs %.12g" % (what, nm, j, a[j], b[j]))
    if (A.cType or "") != (B.cType or ""):
        out.fail("%s: row types differ" % what)
        return
    if A.A is not None and len(A.cType or ""):
        if not np.allclose(A.b, B.b, rtol=1e-9, atol=1e-11):
            j = int(np.argmax(np.abs(np.asarray(A.b) - np.asarray(B.b))))
            out.fail("%s: right-hand side differs at row %d (%s): %.12g vs %.12g" % (what, j, A.cType[j], A.b[j], B.b[j]))
        D = abs(sp.csr_matrix(A.A) - sp.csr_matrix(B.A))
        if D.nnz and D.max() > 1e-9 * (1 + abs(sp.csr_matrix(A.A)).max()):
            out.fail("%s: restriction matrix differs (max deviation %g)" % (what, D.max()))


def check_units(spec, out):
    base = {k: v for k, v in spec.items() if k not in ("target", "kind", "split")}
    s2, feats = convert(base, spec["target"])
    out.label("units:%s->%s" % (base["grid"]["mtu"], spec["target"]))
    r1 = obs.Run(base)
    if is_err(r1.op):
        return out.drop("setup_error:" + r1.op.kind)
    r2 = obs.Run(s2)
    if is_err(r2.op):
        return out.fail("after re-expressing all rates and durations in unit '%s' set-up raises %s" % (spec["target"], r2.op.short()))
    same_problem(out, r1.op, r2.op, "unit %s vs %s" % (base["grid"]["mtu"], spec["target"]))
    if spec.get("split") and not out.violations:
        # the same through the split build: interval by interval the same problems
        rs1 = obs.Run(base, split=spec["split"])
        if not is_err(rs1.op):
            out.label("split_build")
            rs2 = obs.Run(s2, split=spec["split"])
            if is_err(rs2.op):
                out.fail("split set-up in unit '%s' raises %s" % (spec["target"], rs2.op.short()))
            elif len(rs1.op.ops) != len(rs2.op.ops):
                out.fail("split: %d intervals in unit %s, %d in unit %s" % (len(rs1.op.ops), base["grid"]["mtu"], len(rs2.op.ops), spec["target"]))
            else:
                for i, (o1, o2) in enumerate(zip(rs1.op.ops, rs2.op.ops)):
                    same_problem(out, o1, o2, "split interval %d, unit %s vs %s" % (i, base["grid"]["mtu"], spec["target"]))
                    if out.violations:
                        break
    takes = any(a.get("min_take") or a.get("max_take") for a in base["assets"])
    wacc = any(a.get("wacc") for a in base["assets"])
    out.nontrivial = feats["rate"] > 0 and (feats["dur"] > 0 or wacc or takes)
    out.label("has_durations" if feats["dur"] else None, "has_wacc" if wacc else None)
    if not out.violations and int(core.spec_hash(spec), 16) % 4 == 0:
        res1, res2 = r1.optimize(), r2.optimize()
        if is_err(res1) or is_err(res2):
            return
        if isinstance(res1, str) or isinstance(res2, str):
            if isinstance(res1, str) != isinstance(res2, str) and "inaccurate" not in (res1, res2):
                out.fail("unit %s: %s, unit %s: %s" % (base["grid"]["mtu"], res1 if isinstance(res1, str) else "optimal",
                                                    spec["target"], res2 if isinstance(res2, str) else "optimal"))
            return
        out.label("solved")
        if abs(float(res1.value) - float(res2.value)) > 2 * core.tol_val(float(res1.value), r1.is_mip):
            out.fail("optimal value %.9g in unit %s, %.9g in unit %s" % (float(res1.value), base["grid"]["mtu"],
                                                                       float(res2.value), spec["target"]))


def check_steps(spec, out):
    g = spec["grid"]
    a = spec["assets"][0]
    dt = tl.dt(g)
    out.label("steps:" + g["freq"], "class:" + a["type"])
    assets, _ = build.build_assets(spec)
    grid = build.build_grid(g)
    if not np.allclose(np.asarray(grid.dt, float), dt, rtol=1e-12, atol=1e-12):
        out.fail("Timegrid.dt %s != real elapsed time %s" % (np.asarray(grid.dt), dt))
    op = eao_call(assets[0].setup_optim_problem, build.build_prices(spec), grid)
    if is_err(op):
        return out.drop("setup_error:" + op.kind)
    T = g["T"]
    l, u = np.asarray(op.l, float), np.asarray(op.u, float)
    if a.get("freq"):
        # coarse asset on unequal steps: constant RATE inside a coarse step, so the share of a grid step in the
        # coarse variable is its real length / length of the coarse step, and the limit is rate x that length
        nco = T // 2
        mp = op.mapping
        for j in range(nco):
            steps = [2 * j, 2 * j + 1]
            tot = float(dt[steps].sum())
            if abs(u[j] - a["max_cap"] * tot) > 1e-9 * (1 + tot) or abs(l[j] - a["min_cap"] * tot) > 1e-9 * (1 + tot):
                out.fail("coarse step %d: limits [%g,%g], expected rate x elapsed time [%g,%g]" % (j, l[j], u[j], a["min_cap"] * tot, a["max_cap"] * tot))
            rows = mp.loc[[j]] if j in mp.index else mp.iloc[0:0]
            got = {int(t): float(f) for t, f in zip(rows["time_step"].values, rows["disp_factor"].values)}
            exp = {t: float(dt[t] / tot) for t in steps}
            if set(got) != set(exp) or any(abs(got[t] - exp[t]) > 1e-9 for t in exp):
                out.fail("coarse step %d: shares of the grid steps %s, expected step length / coarse length %s" % (j, got, exp))
        out.nontrivial = len(set(np.round(dt[: 2 * nco], 9))) >= 2
        return
    if a["type"] == "plant":
        mp = op.mapping
        on = mp[mp["var_name"] == "bool_on"]
        on = on[~on.index.duplicated(keep="first")]
        if len(on) != T:
            return out.fail("plant: %d on-variables for %d steps" % (len(on), T))
        got = np.asarray(op.c, float)[on.index.values.astype(int)][np.argsort(on["time_step"].values.astype(int))]
        exp = a["running_costs"] * dt
        if not np.allclose(got, exp, rtol=1e-9, atol=1e-12):
            out.fail("running costs per step %s are not rate x real step length %s" % (got, exp))
        d = mp[(mp["var_name"] == "disp")]
        d = d[~d.index.duplicated(keep="first")]
        ud = np.asarray(op.u, float)[d.index.values.astype(int)][np.argsort(d["time_step"].values.astype(int))]
        if not np.allclose(ud, a["max_cap"] * dt, rtol=1e-9, atol=1e-12):
            out.fail("plant: dispatch limits %s are not capacity x real step length %s" % (ud, a["max_cap"] * dt))
        if a.get("ramp") is not None:
            # a plant running at its full rate before and throughout the horizon changes its rate by nothing: the
            # volumes capacity x step length must be admissible whatever the ramp limit is
            out.label("plant_ramp")
            raw = lpkit.from_op(op)
            oi = on.index.values.astype(int)
            raw.l[oi] = 1.0
            di = d.index.values.astype(int)[np.argsort(d["time_step"].values.astype(int))]
            raw.l[di] = raw.u[di] = a["max_cap"] * dt
            feas = lpkit.feasible(raw)
            if feas is False:
                out.fail("plant with ramp %g: running at the constant full rate %g (volumes %s) is excluded on steps of unequal length"
                         % (a["ramp"], a["max_cap"], list(a["max_cap"] * dt)))
        out.nontrivial = len(set(np.round(dt, 9))) >= 2
        return
    if a["type"] == "simple":
        lo, hi = a["min_cap"] * dt, a["max_cap"] * dt
        if len(l) == T:
            el, eu = lo, hi
        else:
            el = np.hstack([np.minimum(0, lo), np.maximum(0, lo)])
            eu = np.hstack([np.minimum(0, hi), np.maximum(0, hi)])
    elif a["type"] in ("transport", "exttransport"):
        el, eu = a["min_cap"] * dt, a["max_cap"] * dt
    else:
        if len(l) == T:
            el, eu = -a["cap_in"] * dt, a["cap_out"] * dt
        else:
            el = np.hstack([-a["cap_in"] * dt, np.zeros(T)])
            eu = np.hstack([np.zeros(T), a["cap_out"] * dt])
    if a.get("_holding"):
        # a unit taken in (given out) in step t is held (no longer held) from step t to the end: cost_store x elapsed
        # time from the beginning of step t to the end of the window, the charged unit weighted with the efficiency
        out.label("holding_cost")
        rest = np.array([dt[t:].sum() for t in range(T)], float) * a["cost_store"]
        c = np.asarray(op.c, float)
        ec = -rest if len(c) == T else np.hstack([-rest * a.get("eff_in", 1.0), -rest])
        if len(c) != len(ec) or not np.allclose(c, ec, rtol=1e-9, atol=1e-12):
            out.fail("holding cost per unit and step %s is not cost rate x elapsed time to the end %s" % (c, ec))
    if len(l) != len(el) or not np.allclose(l, el, rtol=1e-9, atol=1e-12) or not np.allclose(u, eu, rtol=1e-9, atol=1e-12):
        out.fail("per-step limits are not rate x real step length: l=%s u=%s expected l=%s u=%s" % (l, u, el, eu))
    else:
        tot = float(np.abs(eu).sum() + np.abs(el).sum())
        if abs(float(np.abs(u).sum() + np.abs(l).sum()) - tot) > 1e-9 * (1 + tot):
            out.fail("total limit is not rate x elapsed time")
    out.nontrivial = len(set(np.round(dt, 9))) >= 2


def check(spec):
    out = Outcome()
    if spec["kind"] == "units":
        check_units(spec, out)
    else:
        check_steps(spec, out)
    return out
