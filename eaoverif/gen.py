"""Hypothesis strategies shared by the property modules.

All numbers are dyadic (multiples of 1/8 or 1/16) so that products such as rate*dt are exact in
binary floating point and tolerances are only needed for solver output.
"""
from hypothesis import strategies as st

from . import timeline as tl

# start dates: DST switches of CET/London (28 Mar, 31 Oct 2021) and New York (14 Mar, 7 Nov 2021),
# month / year ends, a leap day and ordinary days
DATE_POOL = ["2021-03-27", "2021-03-28", "2021-03-13", "2021-03-14", "2021-10-30", "2021-10-31",
             "2021-11-06", "2021-11-07", "2021-01-30", "2021-02-27", "2020-02-28", "2021-12-31",
             "2021-06-15", "2021-06-16"]
ZONES = [None, None, "UTC", "CET", "Europe/London", "America/New_York"]
FREQS = ["15min", "h", "h", "2h", "4h", "6h", "d"]
UNITS = ["h", "h", "d", "min"]


def dyadic(lo, hi, denom=8):
    """multiples of 1/denom in [lo, hi]"""
    return st.integers(int(lo * denom), int(hi * denom)).map(lambda k: k / denom)


@st.composite
def grids(draw, min_T=2, max_T=16, freqs=None, units=None, zones=None, uniform_only=False):
    freq = draw(st.sampled_from(freqs or FREQS))
    tz = draw(st.sampled_from(zones or ZONES))
    mtu = draw(st.sampled_from(units or UNITS))
    date = draw(st.sampled_from(DATE_POOL))
    hour = draw(st.sampled_from([0, 0, 6, 12, 18, 22]))
    if tz is not None and hour == 22:
        hour = 18
    T = draw(st.integers(min_T, max_T))
    g = {"start": "%s %02d:00" % (date, hour), "T": T, "freq": freq, "mtu": mtu, "tz": tz}
    if uniform_only and not tl.uniform(g):
        g["tz"] = None if freq == "d" else "UTC"
    return g


def price_series(T, lo=-4, hi=16, positive=True):
    if positive:
        el = st.one_of(dyadic(0, hi), dyadic(1, 8))
    else:
        el = st.one_of(dyadic(lo, hi), dyadic(0, hi))
    return st.lists(el, min_size=T, max_size=T)


NAMES_PLAIN = ["a", "b", "c", "d", "e", "f", "g", "h", "i", "j"]
