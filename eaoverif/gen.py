"""Hypothesis strategies shared by the property modules.

All numbers are dyadic (multiples of 1/8 or 1/16) so that products such as rate*dt are exact in
binary floating point and tolerances are only needed for solver output.
"""
from hypothesis import strategies as st

from . import timeline as tl

# start dates: DST switches of CET/London (28 Mar, 31 Oct 2021) and New York (14 Mar, 7 Nov 2021),
# month / year ends, a leap day and ordinary days
DATE_POOL = ["2021-03-27", "2021-03-28", "2021-03-13", "2021-03-14", "2021-10-30", "2021-10-31",
             "2021-11-06", "2021-11-07", "2021-01-30", "2021-02-27", "2020-02-28", "2021-12-31",
             "2021-06-15", "2021-06-16"]
ZONES = [None, None, "UTC", "CET", "Europe/London", "America/New_York"]
FREQS = ["15min", "h", "h", "2h", "4h", "6h", "d"]
UNITS = ["h", "h", "d", "min"]


def dyadic(lo, hi, denom=8):
    """multiples of 1/denom in [lo, hi]"""
    return st.integers(int(lo * denom), int(hi * denom)).map(lambda k: k / denom)


@st.composite
def grids(draw, min_T=2, max_T=16, freqs=None, units=None, zones=None, uniform_only=False):
    freq = draw(st.sampled_from(freqs or FREQS))
    tz = draw(st.sampled_from(zones or ZONES))
    mtu = draw(st.sampled_from(units or UNITS))
    date = draw(st.sampled_from(DATE_POOL))
    hour = draw(st.sampled_from([0, 0, 6, 12, 18, 22]))
    if tz is not None and hour == 22:
        hour = 18
    T = draw(st.integers(min_T, max_T))
    g = {"start": "%s %02d:00" % (date, hour), "T": T, "freq": freq, "mtu": mtu, "tz": tz}
    if uniform_only and not tl.uniform(g):
        g["tz"] = None if freq == "d" else "UTC"
    return g


def price_series(T, lo=-4, hi=16, positive=True):
    if positive:
        el = st.one_of(dyadic(0, hi), dyadic(1, 8))
    else:
        el = st.one_of(dyadic(lo, hi), dyadic(0, hi))
    return st.lists(el, min_size=T, max_size=T)


NAMES_PLAIN = ["a", "b", "c", "d", "e", "f", "g", "h", "i", "j"]


# ====================================================================== portfolio specs
class Cx:
    """generation context"""

    def __init__(self, g, nodes, prices):
        self.g = g
        self.T = g["T"]
        self.nodes = nodes
        self.prices = prices          # dict name -> list, may be extended (capacity columns)
        d = tl.dt(g)
        self.dt0 = float(sorted(d)[len(d) // 2])   # typical step length in main time units
        self.counter = 0

    def price_names(self):
        return [k for k in self.prices if k.startswith("p")]

    def new_col(self, values):
        name = "cap%d" % len([k for k in self.prices if k.startswith("cap")])
        self.prices[name] = list(values)
        return name


def rate(draw, cx, lo, hi, denom=8):
    """a rate (per main time unit) whose per-step volume is a dyadic number in [lo,hi]"""
    q = draw(dyadic(lo, hi, denom))
    return q / cx.dt0


def window(draw, cx, p_none=0.6):
    """asset window in step offsets (may reach outside the horizon)"""
    if draw(st.floats(0, 1)) < p_none:
        return None, None
    T = cx.T
    kind = draw(st.sampled_from(["inside", "inside", "straddle_l", "straddle_r", "open_l", "open_r"]))
    if kind == "inside":
        a = draw(st.integers(0, T - 1))
        b = draw(st.integers(a + 1, T))
        return a, b
    if kind == "straddle_l":
        return draw(st.integers(-4, -1)), draw(st.integers(1, T))
    if kind == "straddle_r":
        return draw(st.integers(0, T - 1)), draw(st.integers(T + 1, T + 4))
    if kind == "open_l":
        return None, draw(st.integers(1, T))
    return draw(st.integers(0, T - 1)), None


def capform(draw, cx, v, sign, allow_forms=True):
    """capacity value v (a rate) as scalar / interval dict covering everything / price column"""
    if not allow_forms or v == 0:
        return v
    r = draw(st.integers(0, 9))
    if r < 6:
        return v
    if r < 9:
        cut = draw(st.integers(1, max(1, cx.T - 1)))
        f = draw(st.sampled_from([0.5, 0.25, 1.0, 0.75]))
        form = draw(st.sampled_from(["list", "list", "array", "dtindex"]))
        return {"iv": [[-50, cut, v], [cut, cx.T + 50, v * f]], "form": form}
    fs = draw(st.lists(st.sampled_from([1.0, 0.5, 0.25, 0.75, 0.0]), min_size=cx.T, max_size=cx.T))
    return {"col": cx.new_col([v * f for f in fs])}


def a_simple(draw, cx, name, node=None, allow_forms=True, sides=None, with_window=True):
    node = node or draw(st.sampled_from(cx.nodes))
    sides = sides or draw(st.sampled_from(["buy", "sell", "both", "both"]))
    lo = -rate(draw, cx, 0.5, 4) if sides in ("sell", "both") else 0.0
    hi = rate(draw, cx, 0.5, 4) if sides in ("buy", "both") else 0.0
    a = {"type": "simple", "name": name, "nodes": [node], "price": draw(st.sampled_from(cx.price_names())),
         "min_cap": capform(draw, cx, lo, -1, allow_forms), "max_cap": capform(draw, cx, hi, 1, allow_forms),
         "extra_costs": draw(st.one_of(st.just(0.0), dyadic(0, 2))),
         "wacc": draw(st.sampled_from([0.0, 0.0, 0.05, 0.4]))}
    if draw(st.integers(0, 9)) == 0 and a["extra_costs"]:
        a["extra_costs"] = {"iv": [[-50, cx.T + 50, a["extra_costs"]]]}
    if with_window:
        a["start"], a["end"] = window(draw, cx)
    return a


def takes(draw, cx, lo, hi, n_max=2):
    """min/max take lists consistent with some constant rate in [lo,hi] (rates)"""
    T = cx.T
    mins, maxs = [], []
    for _ in range(draw(st.integers(0, n_max))):
        s = draw(st.integers(-3, T - 1))
        e = draw(st.integers(max(s + 1, 1), T + 3))
        if e <= s:
            e = s + 1
        dur = sum(tl.dt(cx.g, s, e))
        r = lo + (hi - lo) * draw(st.sampled_from([0.0, 0.25, 0.5, 0.75, 1.0]))
        slack = (hi - lo) * dur * draw(st.sampled_from([0.0, 0.125, 0.25]))
        which = draw(st.sampled_from(["min", "max", "both"]))
        if which in ("min", "both"):
            mins.append([s, e, r * dur - slack])
        if which in ("max", "both"):
            maxs.append([s, e, r * dur + slack])
    return (mins or None), (maxs or None)


def a_contract(draw, cx, name, node=None):
    a = a_simple(draw, cx, name, node, allow_forms=False)
    a["type"] = "contract"
    a["min_take"], a["max_take"] = takes(draw, cx, a["min_cap"], a["max_cap"])
    if a["min_take"] or a["max_take"]:
        a["take_form"] = draw(st.sampled_from(["list", "list", "array", "dtindex", "scalar"]))
    return a


def a_multi(draw, cx, name):
    k = draw(st.integers(1, min(3, len(cx.nodes))))
    nodes = draw(st.permutations(cx.nodes))[:k]
    a = a_simple(draw, cx, name, nodes[0], allow_forms=False)
    a["type"] = "multi"
    a["nodes"] = list(nodes)
    a["factors"] = [draw(st.sampled_from([1.0, 1.0, 0.5, -0.5, 2.0, -1.0, 0.25])) for _ in nodes]
    a["min_take"], a["max_take"] = takes(draw, cx, a["min_cap"], a["max_cap"], n_max=1)
    return a


def a_transport(draw, cx, name, ext=None):
    n0, n1 = draw(st.permutations(cx.nodes))[:2]
    ext = draw(st.booleans()) if ext is None else ext
    neg = draw(st.integers(0, 5)) == 0
    cap = rate(draw, cx, 0.5, 4)
    a = {"type": "exttransport" if ext else "transport", "name": name, "nodes": [n0, n1],
         "min_cap": -cap if neg else 0.0, "max_cap": 0.0 if neg else cap,
         "efficiency": draw(st.sampled_from([1.0, 1.0, 0.5, 0.75, 0.875, 1.25])),
         "costs_const": draw(st.one_of(st.just(0.0), dyadic(0, 2))),
         "costs_time_series": draw(st.one_of(st.none(), st.sampled_from(cx.price_names()))),
         "wacc": draw(st.sampled_from([0.0, 0.0, 0.05, 0.4]))}
    if a["costs_time_series"] is not None and draw(st.booleans()):
        a["costs_time_series"] = None
    a["start"], a["end"] = window(draw, cx)
    if ext:
        # takes refer to the quantity taken FROM node 1 (= flow), same sign as the flow
        a["min_take"], a["max_take"] = takes(draw, cx, a["min_cap"], a["max_cap"], n_max=1)
        if a["min_take"] or a["max_take"]:
            a["take_form"] = draw(st.sampled_from(["list", "list", "array", "dtindex", "scalar"]))
    return a


def a_storage(draw, cx, name, two_nodes=None, mip=False, blocks=False, node=None):
    if two_nodes is None:
        two_nodes = len(cx.nodes) >= 2 and draw(st.integers(0, 3)) == 0
    if two_nodes:
        nodes = list(draw(st.permutations(cx.nodes))[:2])
    else:
        nodes = [node or draw(st.sampled_from(cx.nodes))]
    size = draw(dyadic(1, 8))
    start = draw(st.sampled_from([0.0, 0.0, 0.5, 1.0])) * size * draw(st.sampled_from([1.0, 0.5]))
    end = start if draw(st.booleans()) else draw(st.sampled_from([0.0, 0.25, 0.5, 1.0])) * size
    inflow = draw(st.sampled_from([0.0, 0.0, 0.0, 0.125, 0.25, 0.5]))
    cap_out_q = draw(dyadic(0.5, 4))
    if inflow > cap_out_q:
        inflow = cap_out_q
    a = {"type": "storage", "name": name, "nodes": nodes, "size": size,
         "cap_in": rate(draw, cx, 0.5, 4), "cap_out": cap_out_q / cx.dt0,
         "start_level": start, "end_level": end,
         "eff_in": draw(st.sampled_from([1.0, 1.0, 0.5, 0.75, 0.875])),
         "inflow": inflow / cx.dt0,
         "cost_in": draw(st.sampled_from([0.0, 0.0, 0.125, 0.5])),
         "cost_out": draw(st.sampled_from([0.0, 0.0, 0.125, 0.5])),
         "cost_store": draw(st.sampled_from([0.0, 0.0, 0.0625, 0.25])) / cx.dt0,
         "price": draw(st.one_of(st.none(), st.none(), st.none(), st.sampled_from(cx.price_names()))),
         "wacc": draw(st.sampled_from([0.0, 0.0, 0.05, 0.4]))}
    a["start"], a["end"] = window(draw, cx, p_none=0.7)
    if mip:
        a["no_simult"] = draw(st.booleans())
        if a["no_simult"] and draw(st.booleans()):
            # unequal rates in either direction (the two row sets of the option carry different capacities)
            f = draw(st.sampled_from([2.0, 4.0]))
            if draw(st.booleans()):
                a["cap_in"] = a["cap_out"] * f
            else:
                a["cap_out"] = a["cap_in"] * f
        if draw(st.booleans()) and a["start_level"] == 0 and a["inflow"] == 0:
            a["max_store_duration"] = (draw(st.integers(1, 4)) + 0.5) * cx.dt0
    if blocks:
        a["block"] = draw(st.integers(2, max(2, cx.T // 2 + 1)))
    return a


def a_orderbook(draw, cx, name, node=None, n_max=6):
    T = cx.T
    node = node or draw(st.sampled_from(cx.nodes))
    orders = []
    for _ in range(draw(st.integers(1, n_max))):
        where = draw(st.sampled_from(["in", "in", "in", "straddle", "before", "after"]))
        if where == "in":
            s = draw(st.integers(0, T - 1))
            e = draw(st.integers(s + 1, T))
        elif where == "straddle":
            s = draw(st.integers(-3, T - 1))
            e = draw(st.integers(max(s + 1, T), T + 3)) if s >= 0 else draw(st.integers(1, T + 2))
        elif where == "before":
            s = draw(st.integers(-6, -2))
            e = draw(st.integers(s + 1, 0))
        else:
            s = draw(st.integers(T, T + 3))
            e = draw(st.integers(s + 1, T + 6))
        capa = rate(draw, cx, 0.5, 3) * draw(st.sampled_from([1, -1]))
        if draw(st.integers(0, 11)) == 0:
            capa = 0.0
        orders.append([s, e, capa, draw(dyadic(0, 12))])
    return {"type": "orderbook", "name": name, "nodes": [node], "orders": orders,
            "full_exec": False, "wacc": draw(st.sampled_from([0.0, 0.0, 0.05, 0.4]))}


def _partial_costs(draw, cx, a):
    """start / running costs as interval data that cover only part of the horizon (the documented default 0 applies
    to the rest)"""
    for key in ("start_costs", "running_costs"):
        if a.get(key) and isinstance(a[key], (int, float)) and draw(st.integers(0, 4)) == 0:
            T = cx.g["T"]
            cut = draw(st.integers(1, max(1, T - 1)))
            a[key] = {"iv": [[cut, T + 50, a[key]]] if draw(st.booleans()) else [[-50, cut, a[key]]]}


def _vary_fuel_efficiency(draw, cx, a):
    """fuel efficiency as interval data (documented form float / dict / str): it is the dispatch factor of the fuel
    rows, so it differs between the steps - and between the intervals of a split build"""
    if draw(st.integers(0, 3)) == 0:
        T = cx.g["T"]
        cut = draw(st.integers(1, max(1, T - 1)))
        e1 = a["fuel_efficiency"]
        e2 = draw(st.sampled_from([x for x in (1.0, 0.5, 0.75, 0.25) if x != e1]))
        a["fuel_efficiency"] = {"iv": [[-50, cut, e1], [cut, T + 50, e2]]}


def a_plant(draw, cx, name, fuel=None):
    """a simple MIP plant (the detailed unit-commitment space is C06's)"""
    node = draw(st.sampled_from(cx.nodes))
    nodes = [node]
    others = [n for n in cx.nodes if n != node]
    if fuel is None:
        fuel = bool(others) and draw(st.booleans())
    maxc = rate(draw, cx, 2, 4)
    minc = maxc * draw(st.sampled_from([0.25, 0.5]))
    a = {"type": "plant", "name": name, "nodes": nodes, "price": draw(st.sampled_from(cx.price_names())),
         "min_cap": minc, "max_cap": maxc, "extra_costs": 0.0,
         "start_costs": draw(st.sampled_from([0.0, 1.0, 4.0])),
         "running_costs": draw(st.sampled_from([0.0, 0.5])) / cx.dt0,
         "min_runtime": draw(st.sampled_from([0, 0, 1.5, 2.5])) * cx.dt0,
         "wacc": 0.0}
    if draw(st.integers(0, 2)) == 0:
        # ramp limit, and in half of these a unit that was running before the horizon (rates per main time unit)
        a["ramp"] = maxc * draw(st.sampled_from([0.25, 0.5, 1.0]))
        if draw(st.booleans()):
            a["time_already_running"] = 1.5 * cx.dt0
            a["last_dispatch"] = draw(st.sampled_from([minc, maxc]))
    if fuel and others:
        a["nodes"] = [node, draw(st.sampled_from(others))]
        a["fuel_efficiency"] = draw(st.sampled_from([1.0, 0.5, 0.75]))
        a["consumption_if_on"] = draw(st.sampled_from([0.0, 0.25])) / cx.dt0
        a["start_fuel"] = draw(st.sampled_from([0.0, 1.0]))
        _vary_fuel_efficiency(draw, cx, a)
    _partial_costs(draw, cx, a)
    if draw(st.integers(0, 3)) == 0:
        a["start"], a["end"] = window(draw, cx, p_none=0.0)      # own window (inside, straddling or outside the horizon)
    return a


def markets(cx, prefix="m", lo_price=0.5, hi_price=14.0, cap_q=64.0, draw=None):
    """a buy-dear / sell-cheap pair with large capacity at every node: feasibility by construction.
    With `draw` every node gets its own price level (so that conversion between nodes can pay)."""
    out = []
    cx.prices["pm_hi"] = [hi_price] * cx.T
    cx.prices["pm_lo"] = [lo_price] * cx.T
    for i, n in enumerate(cx.nodes):
        hi_name, lo_name = "pm_hi", "pm_lo"
        if draw is not None and draw(st.booleans()):
            hi = draw(st.sampled_from([14.0, 8.0, 4.0, 2.0, 1.0]))
            lo = min(hi, draw(st.sampled_from([0.5, 1.0, 3.0, 6.0])))
            hi_name, lo_name = "pm_hi%d" % i, "pm_lo%d" % i
            cx.prices[hi_name] = [hi] * cx.T
            cx.prices[lo_name] = [lo] * cx.T
        out.append({"type": "simple", "name": "%sb%d" % (prefix, i), "nodes": [n], "price": hi_name,
                    "min_cap": 0.0, "max_cap": cap_q / cx.dt0, "extra_costs": 0.0, "wacc": 0.0})
        out.append({"type": "simple", "name": "%ss%d" % (prefix, i), "nodes": [n], "price": lo_name,
                    "min_cap": -cap_q / cx.dt0, "max_cap": 0.0, "extra_costs": 0.0, "wacc": 0.0})
    return out


CLASSES_LP = ["simple", "simple", "contract", "transport", "storage", "storage", "multi", "orderbook"]


def draw_asset(draw, cx, cls, name):
    if cls == "simple":
        return a_simple(draw, cx, name)
    if cls == "contract":
        return a_contract(draw, cx, name)
    if cls == "multi":
        return a_multi(draw, cx, name)
    if cls == "transport":
        if len(cx.nodes) < 2:
            return a_simple(draw, cx, name)
        return a_transport(draw, cx, name)
    if cls == "storage":
        return a_storage(draw, cx, name)
    if cls == "storage_mip":
        return a_storage(draw, cx, name, mip=True)
    if cls == "storage_blocks":
        return a_storage(draw, cx, name, blocks=True)
    if cls == "orderbook":
        return a_orderbook(draw, cx, name)
    if cls == "orderbook_full":
        a = a_orderbook(draw, cx, name, n_max=4)
        a["full_exec"] = True
        return a
    if cls == "plant":
        return a_plant(draw, cx, name)
    raise ValueError(cls)


@st.composite
def portfolios(draw, classes=None, min_assets=1, max_assets=5, max_nodes=3, with_markets=0.85,
               grid=None, max_T=12, min_T=2, uniform_only=False, positive_prices=True):
    g = draw(grid) if grid is not None else draw(grids(min_T=min_T, max_T=max_T, uniform_only=uniform_only))
    nn = draw(st.integers(1, max_nodes))
    nodes = ["n%d" % i for i in range(nn)]
    prices = {}
    for i in range(draw(st.integers(1, 3))):
        prices["p%d" % i] = draw(price_series(g["T"], positive=positive_prices))
    cx = Cx(g, nodes, prices)
    classes = classes or CLASSES_LP
    n = draw(st.integers(min_assets, max_assets))
    assets = []
    for i in range(n):
        cls = draw(st.sampled_from(classes))
        assets.append(draw_asset(draw, cx, cls, "a%d" % i))
    mk = draw(st.floats(0, 1)) < with_markets
    if mk:
        assets += markets(cx, draw=draw)
    return {"grid": g, "prices": cx.prices, "assets": assets, "markets": mk, "ints": draw(st.integers(0, 3)) == 0}


# ====================================================================== wrappers and special variants
def a_scaled(draw, cx, name, base_cls=None):
    base_cls = base_cls or draw(st.sampled_from(["simple", "storage", "transport", "contract", "multi", "orderbook"]))
    base = draw_asset(draw, cx, base_cls, name + "_base")
    a = {"type": "scaled", "name": name, "base": base,
         "max_scale": draw(st.sampled_from([1.0, 2.0, 4.0])),
         "norm_scale": draw(st.sampled_from([1.0, 2.0, 0.5])),
         "fix_costs": draw(st.sampled_from([0.0, 0.125, 0.5, 2.0])) / cx.dt0,
         "wacc": 0.0}
    a["min_scale"] = a["max_scale"] * draw(st.sampled_from([0.0, 0.0, 0.5, 1.0]))
    a["start"], a["end"] = window(draw, cx, p_none=0.75)
    return a


def a_structured(draw, cx, name, with_window=True):
    ext = [draw(st.sampled_from(cx.nodes))]
    internal = [name + "_i0"] + ([name + "_i1"] if draw(st.booleans()) else [])
    cin = Cx(cx.g, ext + internal, cx.prices)
    inner = []
    # a source / sink at the first internal node and a link to the external node
    inner.append(a_simple(draw, cin, name + "_x0", node=internal[0], allow_forms=False))
    tr = a_transport(draw, cin, name + "_x1", ext=False)
    tr["nodes"] = [internal[0], ext[0]] if draw(st.booleans()) else [ext[0], internal[0]]
    inner.append(tr)
    for i in range(draw(st.integers(0, 2))):
        cls = draw(st.sampled_from(["simple", "storage", "transport", "contract"]))
        inner.append(draw_asset(draw, cin, cls, "%s_x%d" % (name, i + 2)))
    others = [n for n in cx.nodes if n != ext[0]]
    if others and draw(st.integers(0, 2)) == 0:
        # a second external node, reached through its own link; the wrapped assets in any order (the first node that
        # occurs inside need not be the first external node)
        ext.append(draw(st.sampled_from(others)))
        cin.nodes = ext + internal
        tr2 = a_transport(draw, cin, name + "_x9", ext=False)
        tr2["nodes"] = [internal[0], ext[1]] if draw(st.booleans()) else [ext[1], internal[0]]
        inner.append(tr2)
        inner = [inner[i] for i in draw(st.permutations(list(range(len(inner)))))]
    a = {"type": "structured", "name": name, "nodes": ext, "assets": inner, "wacc": 0.0}
    if with_window:
        a["start"], a["end"] = window(draw, cx, p_none=0.7)
    return a


def a_chp(draw, cx, name):
    k = 3 if draw(st.integers(0, 9)) < 6 else 2
    while len(cx.nodes) < k and len(cx.nodes) < 4:
        cx.nodes.append("n%d" % len(cx.nodes))     # markets are attached to every node afterwards
    if len(cx.nodes) < 2:
        return a_plant(draw, cx, name, fuel=False)
    nodes = list(draw(st.permutations(cx.nodes)))
    k = min(k, len(nodes))
    maxc = rate(draw, cx, 2, 4)
    a = {"type": "chp", "name": name, "nodes": nodes[:k], "price": draw(st.sampled_from(cx.price_names())),
         "min_cap": maxc * draw(st.sampled_from([0.0, 0.25, 0.5])), "max_cap": maxc, "extra_costs": 0.0,
         "conversion_factor_power_heat": draw(st.sampled_from([1.0, 0.5, 0.25])),
         "max_share_heat": draw(st.sampled_from([1.0, 0.5, 2.0])),
         "start_costs": draw(st.sampled_from([0.0, 1.0, 4.0])),
         "running_costs": draw(st.sampled_from([0.0, 0.5])) / cx.dt0,
         "min_runtime": draw(st.sampled_from([0, 0, 1.5])) * cx.dt0, "wacc": 0.0}
    if k == 3:
        a["fuel_efficiency"] = draw(st.sampled_from([1.0, 0.5, 0.75]))
        a["consumption_if_on"] = draw(st.sampled_from([0.0, 0.25])) / cx.dt0
        a["start_fuel"] = draw(st.sampled_from([0.0, 1.0]))
        _vary_fuel_efficiency(draw, cx, a)
    _partial_costs(draw, cx, a)
    if draw(st.integers(0, 3)) == 0:
        a["start"], a["end"] = window(draw, cx, p_none=0.0)      # own window (inside, straddling or outside the horizon)
    return a


def coarsen(draw, cx, a):
    """give asset a a coarser frequency (needs a uniform grid; EAO averages prices unweighted)"""
    m = draw(st.sampled_from([2, 2, 3, 4]))
    a["freq"] = tl.freq_multiple(cx.g["freq"], m)
    a["wacc"] = 0.0
    a["_m"] = m
    # windows on whole coarse steps (counted from the asset start)
    s = a.get("start")
    if s is not None or a.get("end") is not None:
        s0 = s if s is not None else 0
        n = draw(st.integers(1, max(1, (cx.T - max(s0, 0)) // m + 1)))
        a["start"] = s0
        a["end"] = s0 + n * m
    return a


def periodize(draw, cx, a):
    p = draw(st.sampled_from([2, 2, 3, 4]))
    a["periodicity"] = tl.freq_multiple(cx.g["freq"], p)
    a["_p"] = p
    if draw(st.booleans()):
        q = draw(st.sampled_from([2, 3]))
        a["periodicity_duration"] = tl.freq_multiple(cx.g["freq"], p * q)
        a["_q"] = q
    a["wacc"] = 0.0
    return a


CLASSES_ALL = ["simple", "simple", "contract", "transport", "storage", "storage", "multi", "orderbook",
               "scaled", "structured", "plant", "chp", "coarse", "coarse", "periodic", "periodic",
               "storage_mip", "orderbook_full", "chp_minload"]


def draw_any(draw, cx, cls, name):
    if cls == "scaled":
        return a_scaled(draw, cx, name)
    if cls == "structured":
        return a_structured(draw, cx, name)
    if cls == "chp":
        return a_chp(draw, cx, name)
    if cls == "chp_minload":
        a = a_chp(draw, cx, name)
        if a["type"] == "chp":
            a["type"] = "chp_minload"
            a["min_load_threshhold"] = 1.0 / cx.dt0
            a["min_load_costs"] = draw(st.sampled_from([0.5, 2.0])) / cx.dt0
        return a
    if cls in ("coarse", "periodic"):
        base = draw(st.sampled_from(["simple", "simple", "storage", "transport", "contract", "multi", "storage_mip"]))
        a = draw_asset(draw, cx, base, name)
        for k in ("min_cap", "max_cap", "extra_costs"):
            if isinstance(a.get(k), dict):   # scalar limits on merged variables
                a[k] = a[k]["iv"][0][2] if "iv" in a[k] else 0.0
        a.pop("min_take", None)
        a.pop("max_take", None)
        return coarsen(draw, cx, a) if cls == "coarse" else periodize(draw, cx, a)
    return draw_asset(draw, cx, cls, name)


@st.composite
def portfolios_all(draw, classes=None, min_assets=1, max_assets=5, max_nodes=3, with_markets=0.9,
                   max_T=12, min_T=2):
    classes = classes or CLASSES_ALL
    n = draw(st.integers(min_assets, max_assets))
    chosen = [draw(st.sampled_from(classes)) for _ in range(n)]
    need_uniform = any(c in ("coarse", "periodic", "plant", "chp", "chp_minload") for c in chosen)
    g = draw(grids(min_T=min_T, max_T=max_T, uniform_only=need_uniform))
    nn = draw(st.integers(1, max_nodes))
    nodes = ["n%d" % i for i in range(nn)]
    prices = {}
    for i in range(draw(st.integers(1, 3))):
        prices["p%d" % i] = draw(price_series(g["T"]))
    cx = Cx(g, nodes, prices)
    assets = [draw_any(draw, cx, c, "a%d" % i) for i, c in enumerate(chosen)]
    mk = draw(st.floats(0, 1)) < with_markets
    if mk:
        assets += markets(cx, draw=draw)
    if draw(st.integers(0, 3)) == 0:
        # any order of the assets (the market pairs are not always the last ones)
        assets = [assets[i] for i in draw(st.permutations(list(range(len(assets)))))]
    return {"grid": g, "prices": cx.prices, "assets": assets, "markets": mk, "ints": draw(st.integers(0, 3)) == 0}


NODE_POOL = ["1", "11", "N1", "N11", "n", "nn", "0", "10", "a", "a1", "node 1", "1_internal_1"]


COLLIDING = [("1", "11"), ("N1", "N11"), ("n", "nn"), ("1", "10"), ("0", "10"), ("a", "a1"), ("N1", "N10"), ("1", "12")]


def rename_nodes(draw, spec, collide=False):
    """injective renaming of all node names from an adversarial pool (in place); with collide=True the first two
    nodes get a pair of names of which one is a prefix of the other (keys like name + step number then coincide
    from step 10 on)"""
    names = []

    def visit(a):
        for n in a.get("nodes", []):
            if n not in names:
                names.append(n)
        for x in a.get("assets", []):
            visit(x)
        if "base" in a:
            visit(a["base"])
    for a in spec["assets"]:
        visit(a)
    new = draw(st.lists(st.sampled_from(NODE_POOL), min_size=len(names), max_size=len(names), unique=True))
    if collide and len(names) >= 2:
        pair = list(draw(st.sampled_from(COLLIDING)))
        if draw(st.booleans()):
            pair.reverse()
        rest = [x for x in NODE_POOL + ["m%d" % i for i in range(len(names))] if x not in pair]
        new = pair + rest[:len(names) - 2]
    m = dict(zip(names, new))

    def fix(a):
        if "nodes" in a:
            a["nodes"] = [m[n] for n in a["nodes"]]
        for x in a.get("assets", []):
            fix(x)
        if "base" in a:
            fix(a["base"])
    for a in spec["assets"]:
        fix(a)
    spec["node_names"] = "adversarial"
    return spec


PLAIN_WINDOWED = ("simple", "contract", "transport", "exttransport", "storage", "multi")


def make_gap(draw, spec):
    """restrict every asset to a window before g0 or from g1 on, so that no asset at all is active in the steps
    [g0, g1) (phases of a portfolio that do not touch).  Assets without a plain window (or with takes) are left out.
    Returns [g0, g1] or None (spec unchanged) if nothing would remain."""
    T = spec["grid"]["T"]
    if T < 4:
        return None
    g0 = draw(st.integers(1, T - 2))
    g1 = draw(st.integers(g0 + 1, T - 1))
    keep = []
    for a in spec["assets"]:
        if a["type"] not in PLAIN_WINDOWED or a.get("min_take") or a.get("max_take") or a.get("freq") or a.get("periodicity"):
            continue
        s_, e_ = a.get("start"), a.get("end")
        s_ = 0 if s_ is None else s_
        e_ = T if e_ is None else e_
        if draw(st.booleans()):
            e_ = min(e_, g0)
            if s_ >= e_:
                s_ = draw(st.integers(0, e_ - 1))
        else:
            s_ = max(s_, g1)
            if e_ <= s_:
                e_ = draw(st.integers(s_ + 1, T))
        keep.append(dict(a, start=s_, end=e_))
    if not keep:
        return None
    spec["assets"] = keep
    return [g0, g1]
