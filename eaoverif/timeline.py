"""Independent time arithmetic (does not import eaopack).

A grid spec is ``{"start": "2021-03-27 00:00", "T": 8, "freq": "h", "mtu": "h", "tz": None}``.
All dates handed to EAO are expressed in the specs as integer *step offsets* ``k`` relative to the
grid start (``k`` may be negative or larger than ``T``); :func:`point` turns an offset into a
time stamp by the frequency's own rule:

* tick frequencies (``15min``, ``h``, ``2h`` ...) advance in absolute (UTC) time,
* ``d`` advances in wall-clock days of the grid's zone (23/25 hour days at DST switches),
* ``MS`` advances to the first of the following months (wall clock).

Step lengths are real elapsed time (UTC difference of consecutive points) divided by the main
time unit.  pandas is used only for zone conversion of single stamps.
"""
import re
import datetime as _dt
import numpy as np
import pandas as pd

UNIT_SECONDS = {"h": 3600.0, "d": 86400.0, "min": 60.0}

_TICK = re.compile(r"^(\d*)(min|h)$")


def freq_seconds(freq):
    """Length in seconds of a tick frequency, None for calendar frequencies."""
    m = _TICK.match(freq)
    if not m:
        return None
    k = int(m.group(1)) if m.group(1) else 1
    return k * (60.0 if m.group(2) == "min" else 3600.0)


def _localize(naive, tz):
    ts = pd.Timestamp(naive)
    if tz is None:
        return ts
    return ts.tz_localize(tz)


def _utc_seconds(ts):
    """Seconds since epoch of a stamp; naive stamps are read as UTC wall time."""
    ts = pd.Timestamp(ts)
    if ts.tzinfo is None:
        return (ts - pd.Timestamp("1970-01-01")).total_seconds()
    return (ts.tz_convert("UTC").tz_localize(None) - pd.Timestamp("1970-01-01")).total_seconds()


def point(g, k):
    """Time stamp of step offset ``k`` of grid spec ``g`` (tz-aware iff the grid has a zone)."""
    start = pd.Timestamp(g["start"])
    tz = g.get("tz")
    freq = g["freq"]
    k = int(k)
    sec = freq_seconds(freq)
    if sec is not None:
        s0 = _localize(start, tz)
        if tz is None:
            return s0 + pd.Timedelta(seconds=sec * k)
        u = s0.tz_convert("UTC") + pd.Timedelta(seconds=sec * k)
        return u.tz_convert(tz)
    m = re.match(r"^(\d*)d$", freq)
    if m:
        n = int(m.group(1)) if m.group(1) else 1
        naive = start + _dt.timedelta(days=n * k)
        return _localize(naive, tz)
    if freq == "MS":
        # start must be a first of month
        month0 = start.year * 12 + (start.month - 1) + k
        naive = pd.Timestamp(year=month0 // 12, month=month0 % 12 + 1, day=1,
                             hour=start.hour, minute=start.minute)
        return _localize(naive, tz)
    raise ValueError("unsupported freq " + str(freq))


def points(g, k0=0, k1=None):
    if k1 is None:
        k1 = g["T"]
    return [point(g, k) for k in range(k0, k1)]


def end(g):
    return point(g, g["T"])


def dt(g, k0=0, k1=None):
    """Real elapsed step lengths in main time units for steps k0..k1-1."""
    if k1 is None:
        k1 = g["T"]
    unit = UNIT_SECONDS[g["mtu"]]
    p = [_utc_seconds(point(g, k)) for k in range(k0, k1 + 1)]
    return np.array([(p[i + 1] - p[i]) / unit for i in range(len(p) - 1)])


def elapsed_days_end(g):
    """Elapsed time in days from the horizon start to the *end* of every step 0..T-1."""
    p = [_utc_seconds(point(g, k)) for k in range(0, g["T"] + 1)]
    return np.array([(p[i + 1] - p[0]) / 86400.0 for i in range(g["T"])])


def discount(g, wacc):
    """(1+wacc)^(-elapsed years), elapsed measured at the end of the step, year = 365 days."""
    return (1.0 + wacc) ** (-elapsed_days_end(g) / 365.0)


def stamp(g, k, naive=False):
    """Stamp for offset k as handed to EAO; ``naive`` strips the zone (wall time)."""
    p = point(g, k)
    if naive and p.tzinfo is not None:
        return p.tz_localize(None)
    return p


def uniform(g):
    d = dt(g)
    return bool(np.all(np.abs(d - d[0]) < 1e-12))


def freq_multiple(freq, m):
    """frequency string for m steps of freq (tick or day)."""
    mt = _TICK.match(freq)
    if mt:
        k = int(mt.group(1)) if mt.group(1) else 1
        return "%d%s" % (k * m, mt.group(2))
    md = re.match(r"^(\d*)d$", freq)
    if md:
        k = int(md.group(1)) if md.group(1) else 1
        return "%dd" % (k * m)
    raise ValueError(freq)
