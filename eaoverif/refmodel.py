"""Textbook LP written from the *spec* (not from EAO objects).

Conventions (from the asset docstrings / property statements):
* volume limit per step = rate x step length; discount (1+wacc)^(-elapsed years), elapsed measured
  at the end of the step from the horizon start, 365-day year; one wacc per asset;
* contract: dispatch x = p - q (p bought / delivered to the node, q sold), cost
  disc*(price*x + extra*(p+q)); multi-commodity: node i receives factor_i * x;
* transport: flow f, node 1 loses f, node 2 receives efficiency*f, cost disc*(const+series)*|f|;
* storage: charge g, discharge h, level L_t = start + sum_{tau<=t}(eff*g - h + inflow*dt), 0<=L<=size,
  L = end level at the last active step; cost disc*(cost_in*g + cost_out*h) + holding cost
  cost_store*dt_t*disc_t per unit of level at the end of step t (the constant part caused by start
  level and inflow is not part of the value - documented);
* take periods: sum of dispatch over the covered active steps <=/>= value * covered/total duration;
* order book: one execution variable y_k in [0,1] per order with at least one covered step,
  delivers y*capa*dt_t on covered steps, costs y*capa*price*sum(dt_t*disc_t);
* nodal balance per (node, step).
"""
import numpy as np
import scipy.sparse as sp

from . import timeline as tl
from . import lpkit


class Ref:
    def __init__(self, spec):
        self.spec = spec
        self.g = spec["grid"]
        self.T = self.g["T"]
        self.dt = tl.dt(self.g)
        self.prices = {k: np.array(v, float) for k, v in spec.get("prices", {}).items()}
        self.c, self.l, self.u = [], [], []
        self.keys = []            # (asset, kind, t/k)
        self.bools = []
        self.rows = []            # (dict col->coef, type, b)
        self.node = {}            # (node, t) -> dict col->coef
        self.unsupported = None
        self.inject = {}          # (node, t) -> fixed injection (constants of pinned unit commitment)
        self.offset = 0.0         # constant cost not attached to a variable
        self.uc = spec.get("_uc", {})   # asset name -> pinned on pattern (list of 0/1)
        for a in spec["assets"]:
            self.add(a)
        for (n, t) in self.inject:
            self.node.setdefault((n, t), {})
        for (n, t), co in sorted(self.node.items()):
            self.rows.append((co, "N", -self.inject.get((n, t), 0.0)))

    # ------------------------------------------------------------ helpers
    def var(self, key, lo, hi, cost, boolean=False):
        self.keys.append(key)
        self.l.append(float(lo))
        self.u.append(float(hi))
        self.c.append(float(cost))
        if boolean:
            self.bools.append(len(self.c) - 1)
        return len(self.c) - 1

    def at_node(self, node, t, col, coef):
        d = self.node.setdefault((node, t), {})
        d[col] = d.get(col, 0.0) + coef

    def active(self, a):
        s = a.get("start")
        e = a.get("end")
        lo = 0 if s is None else max(0, s)
        hi = self.T if e is None else min(self.T, e)
        return list(range(lo, hi))

    def series(self, v, default=None):
        """value form -> array over all T steps (NaN where undefined)"""
        if v is None:
            return None
        if isinstance(v, (int, float)):
            return np.full(self.T, float(v))
        if "col" in v:
            return self.prices[v["col"]].copy()
        if "vec" in v:
            return np.array(v["vec"], float)
        out = np.full(self.T, np.nan)
        for s, e, val in v["iv"]:
            for t in range(max(0, s), min(self.T, e)):
                out[t] = val
        if default is not None:
            out[np.isnan(out)] = default
        return out

    def disc(self, a):
        return tl.discount(self.g, a.get("wacc", 0.0))

    def take_rows(self, a, cols_by_t, act, sign=1.0):
        """cols_by_t: t -> dict col->coef giving the dispatch counted by takes"""
        for name, typ in (("max_take", "U"), ("min_take", "L")):
            for (s, e, v) in (a.get(name) or []):
                K = [t for t in act if s <= t < e]
                if not K:
                    continue
                total = float(tl.dt(self.g, s, e).sum())
                cov = float(self.dt[K].sum())
                co = {}
                for t in K:
                    for col, f in cols_by_t[t].items():
                        co[col] = co.get(col, 0.0) + f
                self.rows.append((co, typ, v * cov / total))

    # ------------------------------------------------------------ assets
    def add(self, a):
        t = a["type"]
        if a.get("freq") or a.get("periodicity"):
            self.unsupported = "coarse/periodic"
            return
        if t in ("simple", "contract", "multi"):
            return self.add_contract(a)
        if t in ("transport", "exttransport"):
            return self.add_transport(a)
        if t == "storage":
            return self.add_storage(a)
        if t == "orderbook":
            return self.add_orderbook(a)
        if t in ("plant", "chp") and a["name"] in self.uc:
            return self.add_plant(a, self.uc[a["name"]])
        self.unsupported = t

    def add_plant(self, a, on):
        """Plant / CHP with a *given* on/off pattern (list over all T steps): an LP.

        virtual output v = power + cf*heat; off: v = 0; on: min*dt <= v <= max*dt; |v_t - v_(t-1)| <=
        ramp*dt (t = 0 against last_dispatch*dt); heat <= share*power; cost: (price+extra)*v discounted,
        running cost*dt per on-step, start cost per off->on transition; fuel node draws
        v/eff + consumption_if_on*dt*on + start_fuel*start.  No start/shutdown profiles here.
        """
        if a.get("start") is not None or a.get("end") is not None:
            self.unsupported = "plant window"
            return
        T = self.T
        disc = self.disc(a)
        chp = a["type"] == "chp"
        nodes = a["nodes"]
        n_p = nodes[0]
        n_h = nodes[1] if chp else None
        n_f = (nodes[2] if len(nodes) > 2 else None) if chp else (nodes[1] if len(nodes) > 1 else None)
        price = self.prices[a["price"]] if a.get("price") else np.zeros(T)
        ex = self.series(a.get("extra_costs", 0.0), default=0.0)
        lo = self.series(a.get("min_cap", 0.0))
        hi = self.series(a.get("max_cap", 0.0))
        cf = self.series(a.get("conversion_factor_power_heat", 1.0), default=1.0) if chp else None
        share = self.series(a.get("max_share_heat"), default=1.0) if (chp and a.get("max_share_heat") is not None) else None
        run_c = self.series(a.get("running_costs", 0.0), default=0.0)
        st_c = self.series(a.get("start_costs", 0.0), default=0.0)
        eff = self.series(a.get("fuel_efficiency", 1.0), default=1.0)
        cons = self.series(a.get("consumption_if_on", 0.0), default=0.0)
        st_f = self.series(a.get("start_fuel", 0.0), default=0.0)
        ramp = a.get("ramp")
        was_on = a.get("time_already_running", 0) > 0
        P, Hh = {}, {}
        prev = None
        for t in range(T):
            o = int(on[t])
            start = 1 if (o == 1 and ((t == 0 and not was_on) or (t > 0 and int(on[t - 1]) == 0))) else 0
            cst = disc[t] * (price[t] + ex[t])
            P[t] = self.var((a["name"], "pw", t), 0.0, hi[t] * self.dt[t] * o, cst)
            co = {P[t]: 1.0}
            self.at_node(n_p, t, P[t], 1.0)
            if chp:
                ub = (share[t] * hi[t] if share is not None else hi[t] / cf[t]) * self.dt[t] * o
                Hh[t] = self.var((a["name"], "ht", t), 0.0, ub, cst * cf[t])
                co[Hh[t]] = cf[t]
                self.at_node(n_h, t, Hh[t], 1.0)
                if share is not None:
                    self.rows.append(({Hh[t]: 1.0, P[t]: -share[t]}, "U", 0.0))
            self.rows.append((dict(co), "L", lo[t] * self.dt[t] * o))
            self.rows.append((dict(co), "U", hi[t] * self.dt[t] * o))
            if ramp is not None:
                r = ramp * self.dt[0]
                if prev is None:
                    last = a.get("last_dispatch", 0.0) * self.dt[0]
                    self.rows.append((dict(co), "U", last + r))
                    self.rows.append((dict(co), "L", last - r))
                else:
                    d = dict(co)
                    for k, v in prev.items():
                        d[k] = d.get(k, 0.0) - v
                    self.rows.append((d, "U", r))
                    self.rows.append((dict(d), "L", -r))
            prev = co
            self.offset += run_c[t] * self.dt[t] * o + st_c[t] * start   # (EAO does not discount these)
            if n_f is not None:
                for k, v in co.items():
                    self.at_node(n_f, t, k, -v / eff[t])
                self.inject[(n_f, t)] = self.inject.get((n_f, t), 0.0) - cons[t] * self.dt[t] * o - st_f[t] * start

    def add_contract(self, a):
        act = self.active(a)
        disc = self.disc(a)
        price = self.prices[a["price"]] if a.get("price") else np.zeros(self.T)
        lo = self.series(a.get("min_cap", 0.0))
        hi = self.series(a.get("max_cap", 0.0))
        ex = self.series(a.get("extra_costs", 0.0), default=0.0)
        nodes = a["nodes"]
        fac = a.get("factors") or [1.0] * len(nodes)
        cols = {}
        for t in act:
            L = lo[t] * self.dt[t]
            H = hi[t] * self.dt[t]
            p = self.var((a["name"], "p", t), max(0.0, L), max(0.0, H), disc[t] * (price[t] + ex[t]))
            q = self.var((a["name"], "q", t), max(0.0, -H), max(0.0, -L), disc[t] * (-price[t] + ex[t]))
            cols[t] = {p: 1.0, q: -1.0}
            for n, f in zip(nodes, fac):
                self.at_node(n, t, p, f)
                self.at_node(n, t, q, -f)
        self.take_rows(a, cols, act)

    def add_transport(self, a):
        act = self.active(a)
        disc = self.disc(a)
        cts = self.prices[a["costs_time_series"]] if a.get("costs_time_series") else np.zeros(self.T)
        cc = a.get("costs_const", 0.0)
        cols = {}
        for t in act:
            L = a.get("min_cap", 0.0) * self.dt[t]
            H = a.get("max_cap", 0.0) * self.dt[t]
            cost = cts[t] + cc
            if L >= 0:
                cst = cost
            elif H <= 0:
                cst = -cost
            else:
                cst = 0.0
                if cost != 0:
                    self.unsupported = "two-sided transport with costs"
            f = self.var((a["name"], "f", t), L, H, disc[t] * cst)
            cols[t] = {f: 1.0}
            self.at_node(a["nodes"][0], t, f, -1.0)
            self.at_node(a["nodes"][1], t, f, a.get("efficiency", 1.0))
        if a["type"] == "exttransport":
            self.take_rows(a, cols, act)

    def add_storage(self, a):
        act = self.active(a)
        if not act:
            return
        if a.get("block") or a.get("no_simult") or a.get("max_store_duration") is not None:
            self.unsupported = "storage option"
            return
        disc = self.disc(a)
        eff = a.get("eff_in", 1.0)
        cs = a.get("cost_store", 0.0)
        price = self.prices[a["price"]] if a.get("price") else np.zeros(self.T)
        n_in = a["nodes"][0]
        n_out = a["nodes"][-1]
        G, H = {}, {}
        for t in act:
            G[t] = self.var((a["name"], "g", t), 0.0, a["cap_in"] * self.dt[t], disc[t] * (a.get("cost_in", 0.0) + price[t]))
            H[t] = self.var((a["name"], "h", t), 0.0, a["cap_out"] * self.dt[t], disc[t] * (a.get("cost_out", 0.0) - price[t]))
            self.at_node(n_in, t, G[t], -1.0)
            self.at_node(n_out, t, H[t], 1.0)
        cum = 0.0
        co = {}
        for i, t in enumerate(act):
            cum += a.get("inflow", 0.0) * self.dt[t]
            co = dict(co)
            co[G[t]] = eff
            co[H[t]] = -1.0
            base = a.get("start_level", 0.0) + cum
            if i == len(act) - 1:
                self.rows.append((co, "S", a.get("end_level", 0.0) - base))
            else:
                self.rows.append((co, "U", a["size"] - base))
                self.rows.append((co, "L", 0.0 - base))
            # holding cost on the variable part of the level at the end of step t
            if cs:
                w = cs * self.dt[t] * disc[t]
                for col, f in co.items():
                    self.c[col] += w * f

    def add_orderbook(self, a):
        disc = self.disc(a)
        for k, (s, e, capa, price) in enumerate(a["orders"]):
            K = [t for t in range(self.T) if s <= t < e]
            if not K:
                continue
            y = self.var((a["name"], "y", k), 0.0, 1.0, capa * price * float((self.dt[K] * disc[K]).sum()),
                         boolean=bool(a.get("full_exec")))
            for t in K:
                self.at_node(a["nodes"][0], t, y, capa * self.dt[t])

    # ------------------------------------------------------------ export
    def raw(self):
        n = len(self.c)
        A = sp.lil_matrix((len(self.rows), n))
        b = np.zeros(len(self.rows))
        cT = ""
        for i, (co, typ, bb) in enumerate(self.rows):
            for col, f in co.items():
                A[i, col] = f
            b[i] = bb
            cT += typ
        return lpkit.Raw(np.array(self.c), np.array(self.l), np.array(self.u), A.tocsr(), b, cT, list(self.bools))

    def vector_from_eao(self, op, x):
        """EAO solution -> reference variables (by asset, variable name and step)"""
        mp = op.mapping
        first = ~mp.index.duplicated(keep="first")
        m1 = mp[first]
        types = {a["name"]: a["type"] for a in self.spec["assets"]}
        val = {}
        for i, asset, vn, t in zip(m1.index.values, m1["asset"].values, m1["var_name"].values, m1["time_step"].values):
            xi = float(x[int(i)])
            ty = types.get(asset)
            t = int(t)
            if ty in ("simple", "contract", "multi"):
                if vn == "disp":
                    val[(asset, "p", t)] = max(xi, 0.0)
                    val[(asset, "q", t)] = max(-xi, 0.0)
                elif vn == "disp_in":
                    val[(asset, "q", t)] = -xi
                elif vn == "disp_out":
                    val[(asset, "p", t)] = xi
            elif ty in ("transport", "exttransport"):
                val[(asset, "f", t)] = xi
            elif ty == "storage":
                if vn == "disp":
                    val[(asset, "g", t)] = max(-xi, 0.0)
                    val[(asset, "h", t)] = max(xi, 0.0)
                elif vn == "disp_in":
                    val[(asset, "g", t)] = -xi
                elif vn == "disp_out":
                    val[(asset, "h", t)] = xi
            elif ty == "orderbook":
                val[(asset, "y", int(vn))] = xi
        vec = np.zeros(len(self.keys))
        missing = []
        for j, k in enumerate(self.keys):
            if k in val:
                vec[j] = val[k]
            else:
                missing.append(k)
        return vec, missing
