"""spec (plain JSON) -> fresh EAO objects.  Nothing is shared between two builds."""
import copy

import numpy as np
import pandas as pd

import eaopack as eao
from eaopack.assets import (SimpleContract, Contract, Transport, ExtendedTransport, Storage,
                            MultiCommodityContract, CHPAsset, CHPAsset_with_min_load_costs, Plant,
                            OrderBook, ScaledAsset)
from eaopack.portfolio import Portfolio, StructuredAsset, LinkedAsset
from eaopack.basic_classes import Timegrid, Node

from . import timeline as tl


def _wall_ok(ts, tz):
    """naive wall time of the aware stamp ts denotes the same instant again (not ambiguous / missing)"""
    try:
        return ts.tz_localize(None).tz_localize(tz) == ts
    except Exception:
        return False


def build_grid(g):
    start = pd.Timestamp(g["start"]).to_pydatetime()
    if "end" in g:
        end = pd.Timestamp(g["end"]).to_pydatetime()
    else:
        e = tl.end(g)
        if e.tzinfo is not None and not _wall_ok(e, g["tz"]):
            # wall time of the end is ambiguous (autumn DST hour): hand over zone-aware stamps
            return Timegrid(tl.point(g, 0), e, freq=g["freq"], main_time_unit=g["mtu"], timezone=g.get("tz"))
        end = (e.tz_localize(None) if e.tzinfo is not None else e).to_pydatetime()
    return Timegrid(start, end, freq=g["freq"], main_time_unit=g["mtu"], timezone=g.get("tz"))


def build_prices(spec, as_frame=False, grid=None):
    pr = {k: np.array(v, dtype=float) for k, v in spec.get("prices", {}).items()}
    if as_frame:
        return pd.DataFrame(pr, index=grid.timepoints)
    return pr


class Ctx:
    """build context: grid spec and node registry (one Node object per name)."""

    def __init__(self, g):
        self.g = g
        self.nodes = {}

    def node(self, name):
        if name not in self.nodes:
            self.nodes[name] = Node(name)
        return self.nodes[name]

    zoneinfo = False     # zone-aware stamps carry a zoneinfo.ZoneInfo object instead of pandas' default (pytz)

    def stamp(self, k, naive=False):
        if k is None:
            return None
        p = tl.stamp(self.g, k, naive=naive)
        if self.zoneinfo and p.tzinfo is not None:
            import zoneinfo
            p = p.tz_convert(zoneinfo.ZoneInfo(self.g["tz"]))
        return p


def _container(vals, form, is_date=False):
    if form.startswith("array64"):
        # numpy date arrays of a given resolution (naive stamps only: numpy dates carry no zone)
        if is_date and all(pd.Timestamp(v).tzinfo is None for v in vals):
            return np.array([np.datetime64(pd.Timestamp(v)) for v in vals]).astype("datetime64[%s]" % form.split(":")[1])
        form = "array"
    if form == "array":
        if is_date:
            return np.array([pd.Timestamp(v) for v in vals], dtype=object)
        return np.array(vals)
    if form == "dtindex" and is_date:
        return pd.DatetimeIndex(vals)
    return list(vals)


def val(v, ctx, naive=False):
    """number | {"iv": [[s,e,v],..], "form":..., "implicit_end": bool} | {"col": name}"""
    if v is None or isinstance(v, (int, float)):
        return v
    if "col" in v:
        return v["col"]
    if "vec" in v:
        return np.array(v["vec"], dtype=float)
    iv = v["iv"]
    form = v.get("form", "list")
    d = {"start": _container([ctx.stamp(r[0], naive) for r in iv], form, True)}
    if not v.get("implicit_end", False):
        d["end"] = _container([ctx.stamp(r[1], naive) for r in iv], form, True)
    d["values"] = _container([r[2] for r in iv], "array" if form.startswith("array") else "list")
    return d


def take(v, ctx, naive=False, form="list"):
    if v is None:
        return None
    if form == "scalar":
        if len(v) == 1:      # one period given by plain values (accepted by the constructors)
            return {"start": ctx.stamp(v[0][0], naive), "end": ctx.stamp(v[0][1], naive), "values": v[0][2]}
        form = "list"
    return {"start": _container([ctx.stamp(r[0], naive) for r in v], form, True),
            "end": _container([ctx.stamp(r[1], naive) for r in v], form, True),
            "values": _container([r[2] for r in v], "array" if (form == "dtindex" or form.startswith("array")) else "list")}


def _common(a, ctx):
    naive = a.get("naive", False)
    k = dict(name=a["name"], start=ctx.stamp(a.get("start"), naive), end=ctx.stamp(a.get("end"), naive),
             wacc=a.get("wacc", 0.0))
    if a.get("np_scalars"):
        # numpy scalars where EAO accepts them at set-up: the window as numpy dates (no zone: naive stamps only)
        for key in ("start", "end"):
            if k[key] is not None and pd.Timestamp(k[key]).tzinfo is None:
                k[key] = np.datetime64(pd.Timestamp(k[key]))
    if a.get("freq") is not None:
        k["freq"] = a["freq"]
    return k


def _period(a, k):
    if a.get("periodicity") is not None:
        k["periodicity"] = a["periodicity"]
        if a.get("periodicity_duration") is not None:
            k["periodicity_duration"] = a["periodicity_duration"]


def build_asset(a, ctx):
    t = a["type"]
    naive = a.get("naive", False)
    if t in ("simple", "contract", "multi"):
        k = _common(a, ctx)
        _period(a, k)
        k.update(price=a.get("price"), extra_costs=val(a.get("extra_costs", 0.0), ctx, naive),
                 min_cap=val(a.get("min_cap", 0.0), ctx, naive), max_cap=val(a.get("max_cap", 0.0), ctx, naive))
        if t == "simple":
            return SimpleContract(nodes=ctx.node(a["nodes"][0]), **k)
        k.update(min_take=take(a.get("min_take"), ctx, naive, a.get("take_form", "list")),
                 max_take=take(a.get("max_take"), ctx, naive, a.get("take_form", "list")))
        if t == "contract":
            return Contract(nodes=ctx.node(a["nodes"][0]), **k)
        return MultiCommodityContract(nodes=[ctx.node(n) for n in a["nodes"]],
                                      factors_commodities=list(a["factors"]), **k)
    if t in ("transport", "exttransport"):
        k = _common(a, ctx)
        _period(a, k)
        k.update(nodes=[ctx.node(n) for n in a["nodes"]], costs_const=a.get("costs_const", 0.0),
                 costs_time_series=a.get("costs_time_series"), min_cap=a.get("min_cap", 0.0),
                 max_cap=a.get("max_cap", 0.0), efficiency=a.get("efficiency", 1.0))
        if t == "transport":
            return Transport(**k)
        k.update(min_take=take(a.get("min_take"), ctx, naive, a.get("take_form", "list")),
                 max_take=take(a.get("max_take"), ctx, naive, a.get("take_form", "list")))
        return ExtendedTransport(**k)
    if t == "storage":
        k = _common(a, ctx)
        _period(a, k)
        nodes = [ctx.node(n) for n in a["nodes"]]
        k.update(nodes=nodes[0] if len(nodes) == 1 else nodes, size=a["size"], cap_in=a["cap_in"],
                 cap_out=a["cap_out"], start_level=a.get("start_level", 0.0),
                 end_level=a.get("end_level", 0.0), cost_out=a.get("cost_out", 0.0),
                 cost_in=a.get("cost_in", 0.0), cost_store=a.get("cost_store", 0.0),
                 eff_in=a.get("eff_in", 1.0), inflow=a.get("inflow", 0.0), price=a.get("price"),
                 no_simult_in_out=a.get("no_simult", False),
                 max_store_duration=a.get("max_store_duration"))
        if a.get("block") is not None:
            k["block_size"] = tl.freq_multiple(ctx.g["freq"], a["block"])
        if a.get("np_scalars"):
            for key in ("size", "cap_in", "cap_out", "start_level", "end_level", "cost_in", "cost_out", "inflow"):
                v = k.get(key)
                if isinstance(v, (int, float)):
                    k[key] = np.int64(v) if float(v).is_integer() else np.float32(v)
        return Storage(**k)
    if t in ("plant", "chp", "chp_minload", "chp_noheat"):
        k = _common(a, ctx)
        k.update(nodes=[ctx.node(n) for n in a["nodes"]], price=a.get("price"),
                 extra_costs=val(a.get("extra_costs", 0.0), ctx, naive),
                 min_cap=val(a.get("min_cap", 0.0), ctx, naive), max_cap=val(a.get("max_cap", 0.0), ctx, naive),
                 min_take=take(a.get("min_take"), ctx, naive), max_take=take(a.get("max_take"), ctx, naive))
        for key in ("ramp", "min_runtime", "time_already_running", "min_downtime", "time_already_off",
                    "last_dispatch", "ramp_freq"):
            if key in a:
                k[key] = a[key]
        for key in ("start_costs", "running_costs", "start_fuel", "fuel_efficiency", "consumption_if_on"):
            if key in a:
                k[key] = val(a[key], ctx, naive)
        for key in ("start_ramp_lower_bounds", "start_ramp_upper_bounds", "shutdown_ramp_lower_bounds",
                    "shutdown_ramp_upper_bounds"):
            if a.get(key) is not None:
                k[key] = np.array(a[key], dtype=float) if a.get("profile_form") == "array" else list(a[key])
        if t == "plant":
            return Plant(**k)
        if t == "chp_noheat":
            # a CHP declared without heat node through its documented constructor argument (what Plant does internally)
            return CHPAsset(_no_heat=True, **k)
        for key in ("conversion_factor_power_heat", "max_share_heat"):
            if key in a:
                k[key] = val(a[key], ctx, naive)
        for key in ("start_ramp_lower_bounds_heat", "start_ramp_upper_bounds_heat",
                    "shutdown_ramp_lower_bounds_heat", "shutdown_ramp_upper_bounds_heat"):
            if a.get(key) is not None:
                k[key] = list(a[key])
        if t == "chp":
            return CHPAsset(**k)
        k.update(min_load_threshhold=val(a.get("min_load_threshhold", 0.0), ctx, naive),
                 min_load_costs=val(a.get("min_load_costs"), ctx, naive))
        return CHPAsset_with_min_load_costs(**k)
    if t == "orderbook":
        o = a["orders"]
        orders = {"start": [ctx.stamp(r[0], naive) for r in o], "end": [ctx.stamp(r[1], naive) for r in o],
                  "capa": [r[2] for r in o], "price": [r[3] for r in o]}
        if a.get("orders_form") == "frame":
            orders = pd.DataFrame(orders)
        return OrderBook(name=a["name"], nodes=ctx.node(a["nodes"][0]), wacc=a.get("wacc", 0.0),
                         orders=orders, full_exec=a.get("full_exec", False))
    if t == "scaled":
        base = build_asset(a["base"], ctx)
        return ScaledAsset(name=a["name"], base_asset=base, start=ctx.stamp(a.get("start"), naive),
                           end=ctx.stamp(a.get("end"), naive), wacc=a.get("wacc", 0.0),
                           min_scale=a.get("min_scale", 0.0), max_scale=a.get("max_scale", 1.0),
                           norm_scale=a.get("norm_scale", 1.0), fix_costs=a.get("fix_costs", 0.0))
    if t in ("structured", "linked"):
        inner = [build_asset(x, ctx) for x in a["assets"]]
        pf = Portfolio(inner)
        k = dict(name=a["name"], nodes=[ctx.node(n) for n in a["nodes"]],
                 start=ctx.stamp(a.get("start"), naive), end=ctx.stamp(a.get("end"), naive),
                 wacc=a.get("wacc", 0.0))
        if t == "structured":
            return StructuredAsset(portfolio=pf, **k)
        by_name = {x.name: x for x in inner}

        def var(v):     # (asset object, variable, node) as in the documented usage
            return (by_name.get(v[0], v[0]), v[1], v[2])
        return LinkedAsset(portfolio=pf, asset1_variable=var(a["asset1_variable"]),
                           asset2_variable=var(a["asset2_variable"]),
                           asset2_time_already_running=a.get("asset2_time_already_running", "time_already_running"),
                           time_back=a.get("time_back", 1), time_forward=a.get("time_forward", 0), **k)
    raise ValueError("unknown asset type " + str(t))


INT_SKIP = ("name", "type", "nodes", "start", "end", "iv", "orders", "min_take", "max_take", "block", "_uc", "_m", "_p", "_q")


def intify(a):
    """the same asset spec with every integral number given as a Python int (a number is a number: ints are a
    valid form of every numeric parameter); dates (step offsets) and interval lists keep their own handling"""
    if isinstance(a, dict):
        out = {}
        for k, v in a.items():
            if k in ("iv",):
                out[k] = [[r[0], r[1], intify(r[2])] for r in v]
            elif k == "orders":
                out[k] = [[o[0], o[1], intify(o[2]), intify(o[3])] for o in v]
            elif k in ("min_take", "max_take") and v:
                out[k] = [[r[0], r[1], intify(r[2])] for r in v]
            elif k in INT_SKIP or k.startswith("_"):
                out[k] = v
            else:
                out[k] = intify(v)
        return out
    if isinstance(a, list):
        return [intify(x) for x in a]
    if isinstance(a, float) and a == int(a) and abs(a) < 2 ** 31:
        return int(a)
    return a


def build_assets(spec):
    ctx = Ctx(spec["grid"])
    ctx.zoneinfo = bool(spec.get("zoneinfo"))
    assets = spec["assets"]
    if spec.get("ints"):
        assets = [intify(a) for a in assets]
    return [build_asset(a, ctx) for a in assets], ctx


def build_portfolio(spec):
    assets, ctx = build_assets(spec)
    return Portfolio(assets)


def build_all(spec):
    """(portfolio, grid, prices) – all fresh."""
    grid = build_grid(spec["grid"])
    pf = build_portfolio(spec)
    prices = build_prices(spec)
    return pf, grid, prices


def asset_node_pairs(a):
    """(asset name, node name) pairs that appear as dispatch columns for asset spec a."""
    t = a["type"]
    if t == "scaled":
        return [(a["name"], n) for (_, n) in asset_node_pairs(a["base"])]
    return [(a["name"], n) for n in a["nodes"]]


def all_nodes(spec):
    out = []
    for a in spec["assets"]:
        for _, n in asset_node_pairs(a):
            if n not in out:
                out.append(n)
    return out


def disp_col(spec, asset, node):
    """Documented label of the dispatch column."""
    if len(all_nodes(spec)) == 1:
        return asset
    return "%s (%s)" % (asset, node)
