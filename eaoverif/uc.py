"""Unit-commitment reference written from the statement of C06 (independent of eaopack).

All durations in *steps* (the generator draws durations at half-step offsets so that EAO's ceil()
conversion is unambiguous).
"""
import numpy as np


def accepts(on, MR, MD, tar, tao):
    """Is the on/off pattern allowed?

    MR/MD: minimum runtime / downtime (steps, <= 1 means none); tar > 0: already running for tar
    steps before the horizon; otherwise off before, for tao steps (tao = 0: unknown / long ago,
    only valid when MD <= 1).
    Returns None if accepted, else a reason string.
    """
    T = len(on)
    on = [int(x) for x in on]
    was_on = tar > 0
    if was_on:
        need = MR - tar if MR > 1 else 0
        for t in range(min(T, max(0, need))):
            if not on[t]:
                return "inherited run must last %d more steps, off at %d" % (need, t)
    else:
        need = MD - tao if (MD > 1 and tao > 0) else 0
        for t in range(min(T, max(0, need))):
            if on[t]:
                return "inherited downtime must last %d more steps, on at %d" % (need, t)
    prev = 1 if was_on else 0
    for s in range(T):
        if on[s] and not prev and MR > 1:
            for t in range(s, min(T, s + MR)):
                if not on[t]:
                    return "run started at %d shorter than %d" % (s, MR)
        if prev and not on[s] and MD > 1:
            for t in range(s, min(T, s + MD)):
                if on[t]:
                    return "downtime started at %d shorter than %d" % (s, MD)
        prev = on[s]
    return None


def transitions(on, was_on):
    """steps with an off->on transition"""
    out = []
    prev = 1 if was_on else 0
    for t, o in enumerate(on):
        if int(o) and not prev:
            out.append(t)
        prev = int(o)
    return out


def profile_role(on, was_on, SRT, SDT, tar=0):
    """role of every step: ('start', j) j-th step of a start profile, ('shut', j) j steps before the
    unit goes off (j = 0 is the last on-step), or None (normal)"""
    T = len(on)
    role = [None] * T
    for s in transitions(on, was_on):
        for j in range(SRT):
            if s + j < T and on[s + j]:
                role[s + j] = ("start", j)
    if was_on and 0 < tar < SRT:
        for j in range(tar, SRT):
            if j - tar < T:
                role[j - tar] = ("start", j)
    prev = 1 if was_on else 0
    for t in range(T):
        if prev and not int(on[t]):       # goes off at t
            for j in range(SDT):
                k = t - 1 - j
                if 0 <= k < T:
                    role[k] = ("shut", j)
        prev = int(on[t])
    return role


def prof_range(x):
    """a profile entry is an exact value or a (lower, upper) pair"""
    if isinstance(x, (list, tuple)):
        return float(x[0]), float(x[1])
    return float(x), float(x)


def point_violations(p, on, v, heat=None, power=None, tol=1e-7, ambiguous=None):
    """clauses of the statement violated by the output vector v (virtual output per step).

    p: dict(min, max (volumes per step, arrays), ramp (volume per step or None), last (volume),
            was_on, tar, SRT, SDT, start_prof, shut_prof (volumes), share, cf (arrays or None))
    """
    T = len(on)
    msgs = []
    if ambiguous is None:
        ambiguous = []
    role = profile_role(on, p["was_on"], p.get("SRT", 0), p.get("SDT", 0), p.get("tar", 0))
    for t in range(T):
        if not int(on[t]):
            if abs(v[t]) > tol:
                msgs.append("step %d: off but output %g" % (t, v[t]))
            continue
        r = role[t]
        if r is not None and r[0] == "start":
            lo_, hi_ = prof_range(p["start_prof"][r[1]])
            if v[t] < lo_ - tol or v[t] > hi_ + tol:
                msgs.append("step %d: start profile step %d requires [%g,%g], output %g" % (t, r[1], lo_, hi_, v[t]))
        elif r is not None and r[0] == "shut":
            lo_, hi_ = prof_range(p["shut_prof"][r[1]])
            if v[t] < lo_ - tol or v[t] > hi_ + tol:
                msgs.append("step %d: shutdown profile step %d requires [%g,%g], output %g" % (t, r[1], lo_, hi_, v[t]))
        else:
            if v[t] < p["min"][t] - tol or v[t] > p["max"][t] + tol:
                msgs.append("step %d: on but output %g outside [%g,%g]" % (t, v[t], p["min"][t], p["max"][t]))
    ramp = p.get("ramp")
    if ramp is not None:
        SDT = p.get("SDT", 0)
        # steps at which the unit goes off
        offs = []
        pr = 1 if p["was_on"] else 0
        for t in range(T):
            if pr and not int(on[t]):
                offs.append(t)
            pr = int(on[t])
        prev = p["last"]
        for t in range(T):
            d = v[t] - prev
            r = role[t]
            relaxed_up = r is not None and r[0] == "start"
            # a fall is free when the step it starts from belongs to a shutdown profile (or the unit
            # goes off right out of one): the step before t is within the SDT steps before an off-step
            relaxed_down = any(t <= e <= t + SDT - 1 for e in offs)
            if d > ramp + tol and not relaxed_up:
                msgs.append("step %d: output rises by %g > ramp %g" % (t, d, ramp))
            if -d > ramp + tol and not relaxed_down:
                if r is not None and r[0] == "shut":
                    # fall from normal operation INTO the first step of a shutdown profile: the
                    # statement ("profiles taking precedence") does not say whether the ramp applies
                    ambiguous.append(t)
                else:
                    msgs.append("step %d: output falls by %g > ramp %g" % (t, -d, ramp))
            prev = v[t]
    if heat is not None:
        for t in range(T):
            r = role[t]
            if not int(on[t]) or r is None:
                continue
            hp = p.get("start_prof_heat" if r[0] == "start" else "shut_prof_heat")
            if hp:
                lo_, hi_ = hp[r[1]]
                if heat[t] < lo_ - tol or heat[t] > hi_ + tol:
                    msgs.append("step %d: %s profile step %d requires heat in [%g,%g], heat %g"
                                % (t, "start" if r[0] == "start" else "shutdown", r[1], lo_, hi_, heat[t]))
    if heat is not None and p.get("share") is not None:
        for t in range(T):
            if heat[t] > p["share"][t] * power[t] + tol:
                msgs.append("step %d: heat %g above share %g x power %g" % (t, heat[t], p["share"][t], power[t]))
    return msgs
