"""Trusted base: solve / check raw problems (c,l,u,A,b,cType,bools) with scipy's HiGHS.

EAO's convention: maximise ``-c.x`` subject to ``l <= x <= u`` and per row class
``U: a.x <= b``, ``L: a.x >= b``, ``S`` and ``N``: ``a.x == b``.  Variables flagged boolean are
integral (their bounds still apply).
"""
import numpy as np
import scipy.sparse as sp
from scipy.optimize import linprog, milp, LinearConstraint, Bounds


class Raw:
    """Plain-array view of a problem."""

    def __init__(self, c, l, u, A=None, b=None, cType="", bools=None):
        self.c = np.asarray(c, dtype=float).copy()
        self.l = np.asarray(l, dtype=float).copy()
        self.u = np.asarray(u, dtype=float).copy()
        n = len(self.c)
        if A is None or len(cType) == 0:
            self.A = sp.csr_matrix((0, n))
            self.b = np.zeros(0)
            self.cType = ""
        else:
            self.A = sp.csr_matrix(A)
            self.b = np.asarray(b, dtype=float).copy()
            self.cType = str(cType)
        self.bools = sorted(set(int(i) for i in (bools or [])))
        self.n = n

    def copy(self):
        return Raw(self.c, self.l, self.u, self.A.copy(), self.b, self.cType, list(self.bools))

    def add_rows(self, A, b, cType):
        A = sp.csr_matrix(A)
        self.A = sp.vstack([self.A, A]).tocsr()
        self.b = np.hstack([self.b, np.asarray(b, dtype=float)])
        self.cType += cType

    def scale(self):
        s = 1.0
        for v in (self.l, self.u, self.b):
            f = v[np.isfinite(v)]
            if len(f):
                s = max(s, float(np.abs(f).max()))
        return s


def bools_of_mapping(mapping):
    """Variables flagged boolean in an EAO mapping (any row of the variable flagged)."""
    if mapping is None or "bool" not in mapping.columns:
        return []
    flag = mapping["bool"]
    out = set()
    for i, f in zip(mapping.index.values, flag.values):
        if f is True or (isinstance(f, (bool, np.bool_)) and bool(f)):
            out.add(int(i))
    return sorted(out)


def from_op(op, bools="mapping"):
    A = op.A
    cType = op.cType if op.cType is not None else ""
    if A is None:
        cType = ""
    bl = bools_of_mapping(op.mapping) if bools == "mapping" else (bools or [])
    return Raw(op.c, op.l, op.u, A, op.b, cType, bl)


def _rows(raw):
    t = np.array(list(raw.cType))
    return t


def solve(raw, mip_rel_gap=0.0, time_limit=60.0, maximize_value=True):
    """Return (status, x, value) with status in {'optimal','infeasible','unbounded','other'}.

    value = -c.x (EAO's sign).  LP via linprog(highs), MIP via milp.
    """
    n = raw.n
    if n == 0:
        return "optimal", np.zeros(0), 0.0
    t = _rows(raw)
    A = raw.A
    if len(raw.bools) == 0:
        Aub = []
        bub = []
        Aeq = None
        beq = None
        if len(t):
            mU = t == "U"
            mL = t == "L"
            mE = (t == "S") | (t == "N")
            if mU.any():
                Aub.append(A[mU])
                bub.append(raw.b[mU])
            if mL.any():
                Aub.append(-A[mL])
                bub.append(-raw.b[mL])
            if mE.any():
                Aeq = A[mE]
                beq = raw.b[mE]
        A_ub = sp.vstack(Aub).tocsr() if Aub else None
        b_ub = np.hstack(bub) if bub else None
        res = linprog(raw.c, A_ub=A_ub, b_ub=b_ub, A_eq=Aeq, b_eq=beq,
                      bounds=np.column_stack([raw.l, raw.u]), method="highs",
                      options={"presolve": True, "time_limit": time_limit})
        st = {0: "optimal", 2: "infeasible", 3: "unbounded"}.get(res.status, "other")
        if st == "optimal":
            return st, np.asarray(res.x), float(-raw.c @ res.x)
        return st, None, None
    # MIP: a variable flagged boolean takes the values 0 or 1 that lie within its bounds
    integrality = np.zeros(n)
    integrality[raw.bools] = 1
    raw = raw.copy()
    # bounds of integer variables are tightened to integers here: given a fractional upper bound such as
    # 0.75 the HiGHS build of scipy 1.14.1 (presolve off) returned x = 0 with status optimal for max x1 + x2
    raw.l[raw.bools] = np.ceil(np.maximum(raw.l[raw.bools], 0.0) - 1e-9)
    raw.u[raw.bools] = np.floor(np.minimum(raw.u[raw.bools], 1.0) + 1e-9)
    if np.any(raw.l > raw.u + 1e-12):
        return "infeasible", None, None
    cons = []
    if len(t):
        lo = np.full(len(t), -np.inf)
        hi = np.full(len(t), np.inf)
        mU = t == "U"
        mL = t == "L"
        mE = (t == "S") | (t == "N")
        hi[mU] = raw.b[mU]
        lo[mL] = raw.b[mL]
        lo[mE] = raw.b[mE]
        hi[mE] = raw.b[mE]
        cons = [LinearConstraint(A, lo, hi)]
    # presolve off: the HiGHS build inside scipy 1.14.1 reports some feasible MIPs as infeasible
    # when its MIP presolve is on (reproduced on a 7-variable problem, see DESIGN.md 6.2)
    res = milp(raw.c, constraints=cons, integrality=integrality, bounds=Bounds(raw.l, raw.u),
               options={"mip_rel_gap": mip_rel_gap, "time_limit": time_limit, "presolve": False})
    st = {0: "optimal", 2: "infeasible", 3: "unbounded"}.get(res.status, "other")
    if st == "optimal":
        x = np.asarray(res.x)
        x[raw.bools] = np.round(x[raw.bools])
        return st, x, float(-raw.c @ x)
    return st, None, None


def feasible(raw, **kw):
    """True / False / None(unknown) feasibility of the problem (objective ignored)."""
    r = raw.copy()
    r.c = np.zeros(r.n)
    st, x, v = solve(r, **kw)
    if st == "optimal":
        return True
    if st == "infeasible":
        return False
    return None


def residual(raw, x, tol_int=True):
    """Largest violation of bounds / rows / integrality by x; returns (worst, where)."""
    x = np.asarray(x, dtype=float)
    worst = 0.0
    where = None
    if len(x) != raw.n:
        return np.inf, "length of x %d != n %d" % (len(x), raw.n)
    if raw.n == 0:
        return 0.0, None
    vl = raw.l - x
    vu = x - raw.u
    for name, v in (("lower bound", vl), ("upper bound", vu)):
        i = int(np.argmax(v))
        if v[i] > worst:
            worst = float(v[i])
            where = "%s of variable %d (x=%g, l=%g, u=%g)" % (name, i, x[i], raw.l[i], raw.u[i])
    if len(raw.cType):
        t = _rows(raw)
        ax = raw.A @ x
        d = ax - raw.b
        viol = np.zeros(len(t))
        mU = t == "U"
        mL = t == "L"
        mE = (t == "S") | (t == "N")
        viol[mU] = d[mU]
        viol[mL] = -d[mL]
        viol[mE] = np.abs(d[mE])
        i = int(np.argmax(viol))
        if viol[i] > worst:
            worst = float(viol[i])
            where = "row %d of type %s (a.x=%g, b=%g)" % (i, t[i], ax[i], raw.b[i])
    if tol_int and raw.bools:
        xb = x[raw.bools]
        v = np.maximum(np.abs(xb - np.round(xb)), np.maximum(-xb, xb - 1.0))     # 0 or 1
        i = int(np.argmax(v))
        if v[i] > worst:
            worst = float(v[i])
            where = "integrality of variable %d (x=%g)" % (raw.bools[i], xb[i])
    return worst, where


def tight_classes(raw, x, tol=1e-6):
    """Set of row classes that have at least one row tight at x (for non-triviality rules)."""
    out = set()
    if len(raw.cType) == 0:
        return out
    t = _rows(raw)
    d = np.abs(raw.A @ x - raw.b)
    for k in "ULSN":
        m = t == k
        if m.any() and (d[m] <= tol * (1 + np.abs(raw.b[m]))).any():
            out.add(k)
    return out


def solve_enum(raw, max_bools=12):
    """Exact optimum of a small MIP by enumerating all 0/1 assignments of its boolean variables and
    solving an LP for each (second opinion when EAO and milp disagree: the HiGHS build in scipy
    1.14.1 has returned infeasible / sub-optimal answers on small MIPs).  None if too many booleans."""
    import itertools
    k = len(raw.bools)
    if k == 0 or k > max_bools:
        return None
    best = ("infeasible", None, None)
    for pat in itertools.product([0.0, 1.0], repeat=k):
        r = raw.copy()
        pat = np.array(pat)
        if np.any(pat < r.l[r.bools] - 1e-12) or np.any(pat > r.u[r.bools] + 1e-12):
            continue
        r.l[r.bools] = pat
        r.u[r.bools] = pat
        r.bools = []
        st, x, v = solve(r)
        if st == "optimal" and (best[2] is None or v > best[2]):
            best = (st, x, v)
    return best


def second_opinion(raw, x_ref, v_ref, x, val, tv, tf):
    """EAO's value `val` (solution x) and milp's optimum v_ref differ by more than tv on a MIP.  Returns
    (v_ref or None, label): exact enumeration when the problem is small; otherwise whichever of the two
    solutions is a feasibility witness against the other decides (None = the reference is the one that is
    wrong or unverifiable, no verdict)."""
    second = solve_enum(raw)
    if second is not None and second[0] == "optimal":
        return second[2], ("milp_reference_corrected_by_enumeration" if abs(second[2] - v_ref) > tv else None)
    if val > v_ref + tv:
        worst, _ = residual(raw, x, tol_int=True)
        if worst <= tf:
            return None, "milp_reference_suboptimal"      # x is feasible and better than the reference 'optimum'
        return v_ref, None
    worst, _ = residual(raw, x_ref, tol_int=True)
    if worst > tf:
        return None, "milp_reference_infeasible_point"
    return v_ref, None
